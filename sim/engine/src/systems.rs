//! The pool of real models the simulator drives.
use feos::epcsaft::{ElectrolytePcSaft, ElectrolytePcSaftParameters};
use feos::gc_pcsaft::{GcPcSaft, GcPcSaftEosParameters};
use feos::ideal_gas::{IdealGasModel, Joback, JobackRecord};
use feos::pcsaft::{PcSaft, PcSaftFunctional, PcSaftParameters};
use feos::pets::{Pets, PetsParameters};
use feos::saftvrmie::{SaftVRMie, SaftVRMieParameters};
use feos::saftvrqmie::{SaftVRQMie, SaftVRQMieParameters};
use feos::uvtheory::{UVTheory, UVTheoryParameters};
use feos::ResidualModel;
use feos_core::cubic::{PengRobinson, PengRobinsonParameters};
use feos_core::parameter::{IdentifierOption, Parameter, ParameterHetero};
use feos_core::EquationOfState;
use std::sync::Arc;

pub type Eos = EquationOfState<IdealGasModel, ResidualModel>;

pub fn repo() -> String {
    std::env::var("VERIF_REPO").unwrap_or_else(|_| "/repo".into())
}

pub fn repo_file(rel: &str) -> String {
    format!("{}/{}", repo(), rel)
}

#[derive(Clone)]
pub struct SystemDef {
    pub name: &'static str,
    pub eos: Arc<Eos>,
    pub ncomp: usize,
    pub entropy_scaling: bool,
    /// two temperatures (K)
    pub t: [f64; 2],
    /// mole numbers (mol)
    pub moles: Vec<f64>,
}

fn joback(n: usize) -> Arc<IdealGasModel> {
    let recs = (0..n)
        .map(|i| {
            let f = 1.0 + 0.37 * i as f64;
            JobackRecord::new(1.0 * f, 1e-2 * f, 1e-4 / f, 1e-6 * f, 1e-8 / f)
        })
        .collect();
    Arc::new(IdealGasModel::Joback(Arc::new(
        Joback::from_model_records(recs).expect("joback"),
    )))
}

fn wrap(name: &'static str, res: ResidualModel, ncomp: usize, es: bool, t: [f64; 2], moles: &[f64]) -> SystemDef {
    SystemDef {
        name,
        eos: Arc::new(EquationOfState::new(joback(ncomp), Arc::new(res))),
        ncomp,
        entropy_scaling: es,
        t,
        moles: moles.to_vec(),
    }
}

pub fn pcsaft_params(names: &[&str]) -> PcSaftParameters {
    PcSaftParameters::from_json(
        names.to_vec(),
        repo_file("tests/pcsaft/test_parameters.json"),
        None,
        IdentifierOption::Name,
    )
    .unwrap_or_else(|e| harness(&format!("pcsaft parameters {names:?}: {e}")))
}

pub fn harness(msg: &str) -> ! {
    eprintln!("harness error: {msg}");
    std::process::exit(2)
}

/// All systems of the C11 pool. Built once per process; models are immutable.
pub fn c11_systems() -> Vec<SystemDef> {
    let mut v = Vec::new();
    // 0 Peng-Robinson binary
    {
        let recs = r#"[
          {"identifier":{"name":"propane"},"molarweight":44.0962,"model_record":{"tc":369.96,"pc":4250000.0,"acentric_factor":0.153}},
          {"identifier":{"name":"butane"},"molarweight":58.123,"model_record":{"tc":425.2,"pc":3800000.0,"acentric_factor":0.199}}
        ]"#;
        let p = PengRobinsonParameters::from_records(serde_json::from_str(recs).unwrap(), None).unwrap();
        v.push(wrap(
            "pr_binary",
            ResidualModel::PengRobinson(PengRobinson::new(Arc::new(p))),
            2,
            false,
            [300.0, 340.0],
            &[1.5, 1.0],
        ));
    }
    // 1 PC-SAFT non-associating binary
    v.push(wrap(
        "pcsaft_binary",
        ResidualModel::PcSaft(PcSaft::new(Arc::new(pcsaft_params(&["propane", "butane"])))),
        2,
        false,
        [300.0, 345.0],
        &[0.7, 1.8],
    ));
    // 2 PC-SAFT cross-associating binary (iterative site fractions)
    {
        let p = PcSaftParameters::from_json(
            vec!["methanol", "ethanol"],
            repo_file("parameters/pcsaft/gross2002.json"),
            None,
            IdentifierOption::Name,
        )
        .unwrap_or_else(|e| harness(&format!("gross2002: {e}")));
        v.push(wrap(
            "pcsaft_assoc_binary",
            ResidualModel::PcSaft(PcSaft::new(Arc::new(p))),
            2,
            false,
            [320.0, 360.0],
            &[1.2, 0.8],
        ));
    }
    // 3 PC-SAFT ternary with a dipolar component
    {
        let p = PcSaftParameters::from_multiple_json(
            &[
                (vec!["propane", "hexane"], repo_file("tests/pcsaft/test_parameters.json")),
                (vec!["acetone"], repo_file("parameters/pcsaft/gross2006.json")),
            ],
            None,
            IdentifierOption::Name,
        )
        .unwrap_or_else(|e| harness(&format!("ternary: {e}")));
        v.push(wrap(
            "pcsaft_dipolar_ternary",
            ResidualModel::PcSaft(PcSaft::new(Arc::new(p))),
            3,
            false,
            [310.0, 350.0],
            &[0.5, 0.9, 0.6],
        ));
    }
    // 4 PC-SAFT with entropy scaling parameters (viscosity)
    {
        let p = PcSaftParameters::from_json(
            vec!["pentafluoroethane [r125]", "1,1,1,2-tetrafluoroethane [r134a]"],
            repo_file("parameters/pcsaft/loetgeringlin2018.json"),
            None,
            IdentifierOption::Name,
        )
        .unwrap_or_else(|e| harness(&format!("loetgeringlin2018: {e}")));
        v.push(wrap(
            "pcsaft_entropy_scaling",
            ResidualModel::PcSaft(PcSaft::new(Arc::new(p))),
            2,
            true,
            [280.0, 320.0],
            &[1.0, 1.3],
        ));
    }
    // 5 gc-PC-SAFT (heterosegmented)
    {
        let p = GcPcSaftEosParameters::from_json_segments(
            &["ethanol", "propane"],
            repo_file("parameters/pcsaft/gc_substances.json"),
            repo_file("parameters/pcsaft/sauer2014_hetero.json"),
            None,
            IdentifierOption::Name,
        )
        .unwrap_or_else(|e| harness(&format!("gc: {e}")));
        v.push(wrap(
            "gc_pcsaft_binary",
            ResidualModel::GcPcSaft(GcPcSaft::new(Arc::new(p))),
            2,
            false,
            [320.0, 355.0],
            &[0.9, 1.4],
        ));
    }
    // 6 SAFT-VR Mie
    {
        let p = SaftVRMieParameters::from_json(
            vec!["ethane", "propane"],
            repo_file("parameters/saftvrmie/lafitte2013.json"),
            None,
            IdentifierOption::Name,
        )
        .unwrap_or_else(|e| harness(&format!("lafitte2013: {e}")));
        v.push(wrap(
            "saftvrmie_binary",
            ResidualModel::SaftVRMie(SaftVRMie::new(Arc::new(p))),
            2,
            false,
            [260.0, 300.0],
            &[1.1, 1.6],
        ));
    }
    // 7 SAFT-VRQ Mie
    {
        let p = SaftVRQMieParameters::from_json(
            vec!["hydrogen", "neon"],
            repo_file("parameters/saftvrqmie/hammer2023.json"),
            Some(repo_file("parameters/saftvrqmie/aasen2020_binary.json")),
            IdentifierOption::Name,
        )
        .unwrap_or_else(|e| harness(&format!("saftvrqmie: {e}")));
        v.push(wrap(
            "saftvrqmie_binary",
            ResidualModel::SaftVRQMie(SaftVRQMie::new(Arc::new(p))),
            2,
            false,
            [30.0, 38.0],
            &[1.0, 0.6],
        ));
    }
    // 8 PeTS
    {
        let recs = r#"[
          {"identifier":{"name":"a"},"molarweight":39.948,"model_record":{"sigma":3.4,"epsilon_k":120.0}},
          {"identifier":{"name":"b"},"molarweight":83.8,"model_record":{"sigma":3.64,"epsilon_k":165.0}}
        ]"#;
        let p = PetsParameters::from_records(serde_json::from_str(recs).unwrap(), None).unwrap();
        v.push(wrap(
            "pets_binary",
            ResidualModel::Pets(Pets::new(Arc::new(p))),
            2,
            false,
            [110.0, 135.0],
            &[1.3, 0.9],
        ));
    }
    // 9 uv-theory
    {
        let recs = r#"[
          {"identifier":{"name":"a"},"molarweight":39.948,"model_record":{"rep":12.0,"att":6.0,"sigma":3.4,"epsilon_k":120.0}},
          {"identifier":{"name":"b"},"molarweight":83.8,"model_record":{"rep":14.0,"att":6.0,"sigma":3.64,"epsilon_k":165.0}}
        ]"#;
        let p = UVTheoryParameters::from_records(serde_json::from_str(recs).unwrap(), None).unwrap();
        v.push(wrap(
            "uvtheory_binary",
            ResidualModel::UVTheory(UVTheory::new(Arc::new(p))),
            2,
            false,
            [130.0, 160.0],
            &[0.8, 1.1],
        ));
    }
    // 10 ePC-SAFT
    {
        let p = ElectrolytePcSaftParameters::from_json(
            vec!["water", "sodium ion", "chloride ion"],
            repo_file("parameters/epcsaft/held2014_w_permittivity_added.json"),
            Some(repo_file("parameters/epcsaft/held2014_binary.json")),
            IdentifierOption::Name,
        )
        .unwrap_or_else(|e| harness(&format!("epcsaft: {e}")));
        v.push(wrap(
            "epcsaft_nacl",
            ResidualModel::ElectrolytePcSaft(ElectrolytePcSaft::new(Arc::new(p))),
            3,
            false,
            [298.15, 330.0],
            &[1.92, 0.04, 0.04],
        ));
    }
    // 11 PC-SAFT functional used as an equation of state
    v.push(wrap(
        "pcsaft_functional_as_eos",
        ResidualModel::PcSaftFunctional(PcSaftFunctional::new(Arc::new(pcsaft_params(&["butane", "hexane"])))),
        2,
        false,
        [320.0, 365.0],
        &[1.0, 1.0],
    ));
    // 12-14 infinite-dilution states: the last component is a trace (Henry-type calculations).
    // Anything that reconstructs one derivative from others loses 1/x in accuracy there.
    v.push(wrap(
        "pcsaft_binary_trace",
        ResidualModel::PcSaft(PcSaft::new(Arc::new(pcsaft_params(&["propane", "butane"])))),
        2,
        false,
        [300.0, 345.0],
        &[1.3, 1.3e-10],
    ));
    {
        let recs = r#"[
          {"identifier":{"name":"propane"},"molarweight":44.0962,"model_record":{"tc":369.96,"pc":4250000.0,"acentric_factor":0.153}},
          {"identifier":{"name":"butane"},"molarweight":58.123,"model_record":{"tc":425.2,"pc":3800000.0,"acentric_factor":0.199}}
        ]"#;
        let p = PengRobinsonParameters::from_records(serde_json::from_str(recs).unwrap(), None).unwrap();
        v.push(wrap(
            "pr_binary_trace",
            ResidualModel::PengRobinson(PengRobinson::new(Arc::new(p))),
            2,
            false,
            [300.0, 340.0],
            &[2.0, 2.0e-9],
        ));
    }
    {
        let p = PcSaftParameters::from_multiple_json(
            &[
                (vec!["propane", "hexane"], repo_file("tests/pcsaft/test_parameters.json")),
                (vec!["acetone"], repo_file("parameters/pcsaft/gross2006.json")),
            ],
            None,
            IdentifierOption::Name,
        )
        .unwrap_or_else(|e| harness(&format!("ternary: {e}")));
        v.push(wrap(
            "pcsaft_dipolar_ternary_trace",
            ResidualModel::PcSaft(PcSaft::new(Arc::new(p))),
            3,
            false,
            [310.0, 350.0],
            &[0.5, 0.9, 1.4e-11],
        ));
    }
    v
}
