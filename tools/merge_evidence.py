#!/usr/bin/env python3
"""Merge the per-engine evidence parts of one property into /verif/evidence/<id>.json."""
import glob, json, os, sys

pid, tier, seed = sys.argv[1], sys.argv[2], int(sys.argv[3])
verif = os.environ.get("VERIF_DIR", "/verif")
parts = sorted(glob.glob(f"{verif}/evidence/parts/{pid}.*.json"))
if not parts:
    print(f"harness error: no evidence parts for {pid}")
    sys.exit(2)
ev = {
    "property_id": pid,
    "tier": tier,
    "seed": seed,
    "level": "exploration",
    "coverage": {
        "evaluations": 0,
        "distinct_nontrivial": 0,
        "rule": "",
        "samples": [],
        "exhaustive": False,
        "engines": {},
        "logical_time_steps": 0,
        "fault_kinds_fired": {},
        "probes_hit": {},
    },
    "assumptions": [],
    "wall_s": 0.0,
    "violations": 0,
}
rules = []
for p in parts:
    d = json.load(open(p))
    c = d["coverage"]
    name = c["engine"]
    ev["coverage"]["evaluations"] += c["evaluations"]
    # engines explore disjoint scenario spaces, so distinct counts add up
    ev["coverage"]["distinct_nontrivial"] += c["distinct_nontrivial"]
    ev["coverage"]["logical_time_steps"] += c["logical_time_steps"]
    rules.append(f"[{name}] {c['rule']}")
    for s in c["samples"][:2]:
        s = dict(s)
        s["engine"] = name
        ev["coverage"]["samples"].append(s)
    for k, v in c["counters"].items():
        if k.startswith("fault."):
            ev["coverage"]["fault_kinds_fired"][f"{name}:{k[6:]}"] = v
        if k.startswith("probe."):
            ev["coverage"]["probes_hit"][f"{name}:{k[6:]}"] = v
    ev["coverage"]["engines"][name] = {
        k: c[k]
        for k in c
        if k not in ("samples", "rule")
    }
    for a in d.get("assumptions", []):
        if a not in ev["assumptions"]:
            ev["assumptions"].append(a)
    ev["wall_s"] += d["wall_s"]
    ev["violations"] += d.get("violations", 0)
ev["coverage"]["rule"] = " || ".join(rules)
ev["coverage"]["components"] = json.load(open(parts[0]))["coverage"].get("components")
os.makedirs(f"{verif}/evidence", exist_ok=True)
json.dump(ev, open(f"{verif}/evidence/{pid}.json", "w"), indent=1)
print(f"evidence: {verif}/evidence/{pid}.json evaluations={ev['coverage']['evaluations']} distinct_nontrivial={ev['coverage']['distinct_nontrivial']} wall={ev['wall_s']:.1f}s")
