//! C12 — converged equilibria do not depend on the initial guess or on continuation order.
//!
//! Two engines: `c12-session` (seeded sessions of guided solves that feed on each
//! other's results) and `c12-driver` (the library's continuation drivers under
//! injected failures). Oracle: the memoryless stand-alone solve of the same
//! specification, computed with all fault points suspended.
use crate::common::*;
use crate::systems::{pcsaft_params, repo_file, Eos};
use feos::ideal_gas::{IdealGasModel, Joback, JobackRecord};
use feos::pcsaft::PcSaft;
use feos::saftvrmie::{SaftVRMie, SaftVRMieParameters};
use feos::ResidualModel;
use feos_core::cubic::{PengRobinson, PengRobinsonParameters};
use feos_core::parameter::{IdentifierOption, Parameter};
use feos_core::verif::{self, FaultRule};
use feos_core::{
    Contributions, DensityInitialization, EquationOfState, PhaseDiagram, PhaseEquilibrium,
    ReferenceSystem, SolverOptions, State,
};
use ndarray::{arr1, Array1};
use quantity::{Moles, Pressure, Temperature, KELVIN, MOL, PASCAL};
use serde::{Deserialize, Serialize};
use serde_json::{json, Value};
use std::collections::HashMap;
use std::sync::{Arc, Mutex, OnceLock};

type Vle = PhaseEquilibrium<Eos, 2>;

const TOL_PURE: f64 = 1e-9;
const TOL_BD: f64 = 1e-7;
const TOL_FLASH_X: f64 = 1e-6;
const TOL_FLASH_REL: f64 = 1e-5;
const TOL_STATE: f64 = 1e-8;

// ------------------------------------------------------------------ systems

pub struct PureSys {
    pub name: &'static str,
    pub eos: Arc<Eos>,
    pub tc: f64,
    pub pc: f64,
    pub rhoc: f64,
}

pub struct BinSys {
    pub name: &'static str,
    pub eos: Arc<Eos>,
    pub tc_low: f64,
}

struct Pool {
    pures: Vec<PureSys>,
    bins: Vec<BinSys>,
    /// mixtures of three components (K-values depend on the overall composition)
    terns: Vec<BinSys>,
    memo: Mutex<HashMap<(u8, usize, [u64; 4]), Option<VleNum>>>,
}

fn joback(n: usize) -> Arc<IdealGasModel> {
    let recs = (0..n)
        .map(|i| {
            let f = 1.0 + 0.37 * i as f64;
            JobackRecord::new(30.0 * f, 1e-1 * f, 1e-5 / f, 0.0, 0.0) // c_p > 0 and increasing: u(T), h(T), s(T) monotonic
        })
        .collect();
    Arc::new(IdealGasModel::Joback(Arc::new(
        Joback::from_model_records(recs).expect("joback"),
    )))
}

fn eos_of(res: ResidualModel, n: usize) -> Arc<Eos> {
    Arc::new(EquationOfState::new(joback(n), Arc::new(res)))
}

fn pool() -> &'static Pool {
    static POOL: OnceLock<Pool> = OnceLock::new();
    POOL.get_or_init(|| with_fixed_entropy(|| {
        let mut pures = Vec::new();
        let mut add_pure = |name: &'static str, eos: Arc<Eos>| {
            let cp = State::critical_point(&eos, None, None, SolverOptions::default())
                .unwrap_or_else(|e| crate::systems::harness(&format!("critical point of {name}: {e}")));
            pures.push(PureSys {
                name,
                eos,
                tc: cp.temperature.to_reduced(),
                pc: cp.pressure(Contributions::Total).to_reduced(),
                rhoc: cp.density.to_reduced(),
            });
        };
        for (name, sub) in [
            ("pcsaft_propane", "propane"),
            ("pcsaft_butane", "butane"),
            ("pcsaft_hexane", "hexane"),
            ("pcsaft_methane", "methane"),
            ("pcsaft_co2", "carbon-dioxide"),
            ("pcsaft_water_np", "water_np"),
        ] {
            add_pure(name, eos_of(ResidualModel::PcSaft(PcSaft::new(Arc::new(pcsaft_params(&[sub])))), 1));
        }
        {
            let p = SaftVRMieParameters::from_json(
                vec!["propane"],
                repo_file("parameters/saftvrmie/lafitte2013.json"),
                None,
                IdentifierOption::Name,
            )
            .unwrap_or_else(|e| crate::systems::harness(&format!("lafitte2013: {e}")));
            add_pure("saftvrmie_propane", eos_of(ResidualModel::SaftVRMie(SaftVRMie::new(Arc::new(p))), 1));
        }
        {
            let recs = r#"[{"identifier":{"name":"propane"},"molarweight":44.0962,"model_record":{"tc":369.96,"pc":4250000.0,"acentric_factor":0.153}}]"#;
            let p = PengRobinsonParameters::from_records(serde_json::from_str(recs).unwrap(), None).unwrap();
            add_pure("pr_propane", eos_of(ResidualModel::PengRobinson(PengRobinson::new(Arc::new(p))), 1));
        }
        let mut bins = Vec::new();
        for (name, a, b) in [
            ("pcsaft_propane_butane", "propane", "butane"),
            ("pcsaft_butane_hexane", "butane", "hexane"),
            ("pcsaft_propane_hexane", "propane", "hexane"),
        ] {
            let eos = eos_of(ResidualModel::PcSaft(PcSaft::new(Arc::new(pcsaft_params(&[a, b])))), 2);
            let tcs = State::critical_point_pure(&eos, None, SolverOptions::default())
                .unwrap_or_else(|e| crate::systems::harness(&format!("critical points of {name}: {e}")));
            let tc_low = tcs.iter().map(|s| s.temperature.to_reduced()).fold(f64::INFINITY, f64::min);
            bins.push(BinSys { name, eos, tc_low });
        }
        // one more binary from another model family (same window: T_c ratio < 1.5, no LLE).
        // Peng-Robinson propane/butane was tried and removed: its *un-guided* bubble and dew
        // points "converge" to an empty system (p ~ 1e-133 .. 1e-220, reported as success) for
        // some inputs and flip between that and the right answer on last-bit changes of the
        // composition, which is a defect of the stand-alone solve (C05), not of a guess.
        {
            let p = SaftVRMieParameters::from_json(
                vec!["ethane", "propane"],
                repo_file("parameters/saftvrmie/lafitte2013.json"),
                None,
                IdentifierOption::Name,
            )
            .unwrap_or_else(|e| crate::systems::harness(&format!("lafitte2013: {e}")));
            let eos = eos_of(ResidualModel::SaftVRMie(SaftVRMie::new(Arc::new(p))), 2);
            let tcs = State::critical_point_pure(&eos, None, SolverOptions::default())
                .unwrap_or_else(|e| crate::systems::harness(&format!("critical points of saftvrmie binary: {e}")));
            let tc_low = tcs.iter().map(|s| s.temperature.to_reduced()).fold(f64::INFINITY, f64::min);
            bins.push(BinSys { name: "saftvrmie_ethane_propane", eos, tc_low });
        }
        let mut terns = Vec::new();
        {
            let eos = eos_of(ResidualModel::PcSaft(PcSaft::new(Arc::new(pcsaft_params(&["propane", "butane", "hexane"])))), 3);
            let tcs = State::critical_point_pure(&eos, None, SolverOptions::default())
                .unwrap_or_else(|e| crate::systems::harness(&format!("critical points of the ternary: {e}")));
            let tc_low = tcs.iter().map(|s| s.temperature.to_reduced()).fold(f64::INFINITY, f64::min);
            terns.push(BinSys { name: "pcsaft_propane_butane_hexane", eos, tc_low });
        }
        Pool {
            pures,
            bins,
            terns,
            memo: Mutex::new(HashMap::new()),
        }
    }))
}

// ------------------------------------------------------------------ numbers

#[derive(Clone, Debug)]
pub struct VleNum {
    pub t: f64,
    pub p: f64,
    pub rho_v: f64,
    pub rho_l: f64,
    pub y: Vec<f64>,
    pub x: Vec<f64>,
    pub nv: Vec<f64>,
    pub nl: Vec<f64>,
}

fn num(v: &Vle) -> VleNum {
    VleNum {
        t: v.vapor().temperature.to_reduced(),
        p: v.vapor().pressure(Contributions::Total).to_reduced(),
        rho_v: v.vapor().density.to_reduced(),
        rho_l: v.liquid().density.to_reduced(),
        y: v.vapor().molefracs.to_vec(),
        x: v.liquid().molefracs.to_vec(),
        nv: v.vapor().moles.to_reduced().to_vec(),
        nl: v.liquid().moles.to_reduced().to_vec(),
    }
}

fn digest_num(d: &mut Digest, n: &VleNum) {
    for x in [n.t, n.p, n.rho_v, n.rho_l] {
        d.f64(x);
    }
    for x in n.y.iter().chain(&n.x) {
        d.f64(*x);
    }
}

/// worst deviation of the intensive description (T, p, densities relative; compositions absolute)
fn dev_intensive(a: &VleNum, r: &VleNum) -> (f64, f64) {
    let mut rel = 0.0f64;
    for (x, y) in [(a.t, r.t), (a.p, r.p), (a.rho_v, r.rho_v), (a.rho_l, r.rho_l)] {
        rel = rel.max(deviation(x, y, 1e-300));
    }
    let mut abs = 0.0f64;
    for (x, y) in a.y.iter().zip(&r.y).chain(a.x.iter().zip(&r.x)) {
        abs = abs.max((x - y).abs());
    }
    (rel, abs)
}

fn dev_amounts(a: &VleNum, r: &VleNum) -> f64 {
    let tot: f64 = r.nv.iter().chain(&r.nl).sum();
    let mut d = 0.0f64;
    for (x, y) in a.nv.iter().zip(&r.nv).chain(a.nl.iter().zip(&r.nl)) {
        d = d.max((x - y).abs() / tot);
    }
    d
}

fn memo<F: FnOnce() -> Option<VleNum>>(kind: u8, sys: usize, key: [f64; 4], f: F) -> Option<VleNum> {
    let k = (kind, sys, [key[0].to_bits(), key[1].to_bits(), key[2].to_bits(), key[3].to_bits()]);
    if let Some(v) = pool().memo.lock().unwrap().get(&k) {
        return v.clone();
    }
    // references are memoryless: fresh solve, no guess, fault points suspended
    let v = verif::suspended(f);
    pool().memo.lock().unwrap().insert(k, v.clone());
    v
}

fn ref_pure_t(s: usize, t: f64) -> Option<VleNum> {
    memo(0, s, [t, 0.0, 0.0, 0.0], || {
        Vle::pure(&pool().pures[s].eos, t * KELVIN, None, SolverOptions::default())
            .ok()
            .map(|v| num(&v))
    })
}

fn ref_pure_p(s: usize, p: f64) -> Option<VleNum> {
    memo(1, s, [p, 0.0, 0.0, 0.0], || {
        Vle::pure(&pool().pures[s].eos, Pressure::from_reduced(p), None, SolverOptions::default())
            .ok()
            .map(|v| num(&v))
    })
}

fn ref_bubble_t(s: usize, t: f64, x0: f64) -> Option<VleNum> {
    memo(2, s, [t, x0, 0.0, 0.0], || {
        Vle::bubble_point(&pool().bins[s].eos, t * KELVIN, &arr1(&[x0, 1.0 - x0]), None, None, Default::default())
            .ok()
            .map(|v| num(&v))
    })
}

fn ref_dew_t(s: usize, t: f64, y0: f64) -> Option<VleNum> {
    memo(3, s, [t, y0, 0.0, 0.0], || {
        Vle::dew_point(&pool().bins[s].eos, t * KELVIN, &arr1(&[y0, 1.0 - y0]), None, None, Default::default())
            .ok()
            .map(|v| num(&v))
    })
}

fn ref_flash(s: usize, t: f64, p: f64, z0: f64, ntot: f64) -> Option<VleNum> {
    memo(4, s, [t, p, z0, ntot], || {
        let feed = arr1(&[z0 * ntot, (1.0 - z0) * ntot]) * MOL;
        Vle::tp_flash(
            &pool().bins[s].eos,
            t * KELVIN,
            Pressure::from_reduced(p),
            &feed,
            None,
            SolverOptions::default(),
            None,
        )
        .ok()
        .map(|v| num(&v))
    })
}

// ------------------------------------------------------------------ scenario

#[derive(Serialize, Deserialize, Clone, Debug)]
pub struct FaultSpec {
    pub site: String,
    /// key range; if `relative`, fractions of the driver's specification range
    pub lo: f64,
    pub hi: f64,
    pub budget: u32,
    pub relative: bool,
}

#[derive(Serialize, Deserialize, Clone, Debug)]
pub enum SOp {
    /// pure VLE at T = tf*Tc with an earlier result as guess
    PureT { tf: f64, guess: Option<usize> },
    /// pure VLE at p = p_sat(tf*Tc) with an earlier result as guess
    PureP { tf: f64, guess: Option<usize> },
    /// pure VLE at T (or at p_sat(tf*Tc) if `at_p`) guided by the most recent result of the
    /// session: the continuation pattern of the phase-diagram drivers, in either direction
    PureChain { tf: f64, at_p: bool },
    /// pure VLE at T guided by the stand-alone result at the same T: a converged result used
    /// as its own guess must be reproduced (a result that only looks converged is not)
    PureTSelf { tf: f64 },
    /// pure VLE at T with an un-converged two-phase guess built by PhaseEquilibrium::new_npt at
    /// the requested temperature and a guessed pressure pf * p_sat
    PureTNpt { tf: f64, pf: f64 },
    /// pure VLE at p with an un-converged two-phase guess built by new_npt at the requested
    /// pressure and a guessed temperature T_sat + dt
    PurePNpt { tf: f64, dt: f64 },
    /// State::new_npt with InitialDensity taken from an earlier result
    Npt { tf: f64, pf: f64, guess: usize, liquid: bool },
    /// State::new_nvu with an initial temperature
    Nvu { tf: f64, rf: f64, ti: f64 },
    /// State::new_nph / new_nps at supercritical pressure with an initial temperature
    Nph { tf: f64, ti: f64, entropy: bool },
    /// critical point with an initial temperature
    Crit { ti: f64 },
    /// bubble (or dew) point at T
    BdT { bubble: bool, tf: f64, x: f64, pf: Option<f64>, comp: u8, guess: usize },
    /// bubble (or dew) point at p from two different initial temperatures
    BdP { bubble: bool, tf: f64, x: f64, dt: f64, comp: u8, guess: usize },
    /// flash inside the envelope, optionally guided by an earlier result
    Flash { tf: f64, z: f64, u: f64, ntot: f64, guess: Option<usize> },
    /// flash with an un-converged guess built by new_npt at (T, p) from perturbed compositions
    FlashNpt { tf: f64, z: f64, u: f64, ntot: f64, dy: f64 },
    /// flash at the T, p of an earlier flash result but for another feed on its tie line
    FlashSameTp { from: usize, v: f64, ntot: f64, use_guess: bool },
    /// flash at the pressure of an earlier flash result, at a shifted temperature, guided by it
    FlashSameP { from: usize, dt: f64, ntot: f64 },
    /// flash at the temperature of an earlier flash result, at a scaled pressure, guided by it
    FlashSameT { from: usize, pf: f64, ntot: f64 },
    /// ternary flash guided by a converged flash result of a neighbouring problem:
    /// mode 0 no guess, 1 other feed at the same (T, p), 2 same feed at T + dt, 3 same feed at p * pf,
    /// 4 its own stand-alone result
    TernFlash { tf: f64, z: [f64; 2], u: f64, ntot: f64, mode: u8, dz: [f64; 2], dt: f64, pf: f64 },
}

#[derive(Serialize, Deserialize, Clone, Debug)]
pub struct Session {
    pub binary: bool,
    pub sys: usize,
    pub ops: Vec<SOp>,
    pub faults: Vec<FaultSpec>,
    pub max_iter: Option<usize>,
}

#[derive(Serialize, Deserialize, Clone, Debug)]
pub enum DKind {
    Pure,
    ParPure { chunksize: usize, pool: usize, steal_permille: u32, seed: u64 },
    BinaryVleT { tf: f64 },
    BinaryVleP { tf: f64, x: f64 },
    BubbleLine { z: f64 },
    DewLine { z: f64 },
    FlashLineT { z: f64, tf0: f64, tf1: f64, u: f64 },
}

#[derive(Serialize, Deserialize, Clone, Debug)]
pub struct Driver {
    pub kind: DKind,
    pub sys: usize,
    pub npoints: usize,
    pub tmin_f: f64,
    pub faults: Vec<FaultSpec>,
    pub max_iter: Option<usize>,
}

#[derive(Serialize, Deserialize, Clone, Debug)]
pub enum Scenario {
    Session(Session),
    Driver(Driver),
}

fn install_faults(faults: &[FaultSpec], range: (f64, f64)) {
    let rules = faults
        .iter()
        .map(|f| {
            let (lo, hi) = if f.relative {
                (
                    range.0 + f.lo * (range.1 - range.0),
                    range.0 + f.hi * (range.1 - range.0),
                )
            } else {
                (f.lo, f.hi)
            };
            FaultRule {
                site: f.site.clone(),
                lo,
                hi,
                budget: f.budget,
            }
        })
        .collect();
    verif::install(rules, true);
}

fn options(max_iter: Option<usize>) -> SolverOptions {
    let mut o = SolverOptions::default();
    o.max_iter = max_iter;
    o
}

struct Ctx {
    out: RunOutcome,
    dg: Digest,
}

impl Ctx {
    fn new() -> Self {
        Ctx {
            out: RunOutcome::default(),
            dg: Digest::default(),
        }
    }
    fn collect_faults(&mut self) -> Vec<verif::FaultEvent> {
        let ev = verif::take_events();
        for e in &ev {
            if e.fired {
                self.out.note(format!("fault fired: {} at key {}", e.site, e.key));
            }
            self.out.count(&format!("reach.{}", e.site), 1);
            if e.fired {
                self.out.count(&format!("fault.{}", e.site), 1);
            }
            self.dg.str(e.site);
            self.dg.f64(e.key);
            self.dg.u64(e.fired as u64);
        }
        ev
    }
}

struct Fingerprint {
    bits: Vec<u64>,
    p: f64,
}

fn fingerprint(v: &Vle) -> Fingerprint {
    let mut bits = Vec::new();
    for s in [v.vapor(), v.liquid()] {
        bits.push(s.temperature.to_reduced().to_bits());
        bits.push(s.volume.to_reduced().to_bits());
        bits.push(s.density.to_reduced().to_bits());
        for m in s.moles.to_reduced().iter() {
            bits.push(m.to_bits());
        }
    }
    Fingerprint {
        bits,
        p: v.vapor().pressure(Contributions::Total).to_reduced(),
    }
}

fn check_guess_unchanged(ctx: &mut Ctx, what: &str, g: &Vle, before: &Fingerprint) {
    let after = fingerprint(g);
    if after.bits != before.bits || deviation(after.p, before.p, 1e-300) > 1e-12 {
        ctx.out.violate(
            "guess-modified",
            "guess-modified",
            format!("{what}: the state passed as initial guess was changed by the call"),
        );
    }
}

// ------------------------------------------------------------------ sessions

fn exec_session(sc: &Session) -> RunOutcome {
    let mut ctx = Ctx::new();
    install_faults(&sc.faults, (0.0, 1.0));
    if sc.max_iter.is_some() {
        ctx.out.count("fault.iteration_budget_cut", 1);
    }
    let mut pool_v: Vec<(Vle, bool)> = Vec::new(); // (result, is_flash)
    let opts = options(sc.max_iter);
    for (i, op) in sc.ops.iter().enumerate() {
        ctx.out.steps += 1;
        ctx.dg.u64(i as u64);
        ctx.out.note(format!("op {i}: {op:?} (pool size {})", pool_v.len()));
        if sc.binary {
            session_binary_op(&mut ctx, sc, i, op, &mut pool_v, opts);
        } else {
            session_pure_op(&mut ctx, sc, i, op, &mut pool_v, opts);
        }
        ctx.collect_faults();
        if pool_v.len() > 8 {
            pool_v.remove(0);
        }
    }
    verif::uninstall();
    ctx.out.digest = ctx.dg.0;
    ctx.out.nontrivial = ctx.out.counters.get("oracle.compared").copied().unwrap_or(0) >= 1;
    ctx.out
}

fn judge(ctx: &mut Ctx, class: &str, sig: &str, what: String, got: &VleNum, r: &VleNum, tol_rel: f64, tol_abs: f64, key: &str) {
    let (rel, abs) = dev_intensive(got, r);
    ctx.out.max(&format!("dev.{key}.rel"), rel);
    ctx.out.max(&format!("dev.{key}.abs"), abs);
    ctx.out.count("oracle.compared", 1);
    // a stand-alone result that is itself a near-trivial pair (the un-guided solve shows the
    // same defect as the known finding, seen at 0.95-0.98 T_c) is no reference
    let ref_collapsed = (r.rho_l / r.rho_v - 1.0).abs() < 1e-3 && r.x.iter().zip(&r.y).all(|(a, b)| (a - b).abs() < 1e-3) && (got.rho_l / got.rho_v - 1.0).abs() > 1e-2;
    if ref_collapsed {
        ctx.out.count("window.standalone_reference_is_a_collapsed_pair", 1);
        return;
    }
    if !(rel <= tol_rel) || !(abs <= tol_abs) {
        // distinguish the known family "phases returned in swapped order"
        let swapped = deviation(got.rho_v, r.rho_l, 1e-300) <= tol_rel && deviation(got.rho_l, r.rho_v, 1e-300) <= tol_rel;
        // ... and the family "near-trivial pair accepted by the 1e-5 trivial-solution test":
        // the two returned phases are (almost) the same state while the reference has a
        // proper phase split
        let collapsed = (got.rho_l / got.rho_v - 1.0).abs() < 1e-3
            && (r.rho_l / r.rho_v - 1.0).abs() > 1e-2
            && got.x.iter().zip(&got.y).all(|(a, b)| (a - b).abs() < 1e-3);
        let (class, sig) = if swapped {
            ("phases-swapped", format!("{sig}:phases-swapped"))
        } else if collapsed {
            ("collapsed-pair", format!("{sig}:collapsed-pair"))
        } else {
            (class, sig.to_string())
        };
        ctx.out.violate(
            class,
            &sig,
            format!("{what}: guided result {got:?} differs from the stand-alone result {r:?} (rel {rel:e}, abs {abs:e})"),
        );
    }
}

fn session_pure_op(ctx: &mut Ctx, sc: &Session, i: usize, op: &SOp, pool_v: &mut Vec<(Vle, bool)>, opts: SolverOptions) {
    let sys = &pool().pures[sc.sys];
    let eos = &sys.eos;
    match op {
        SOp::PureT { tf, guess } => {
            let t = tf * sys.tc;
            let g = guess.and_then(|g| (!pool_v.is_empty()).then(|| pool_v[g % pool_v.len()].0.clone()));
            let before = g.as_ref().map(fingerprint);
            let res = Vle::pure(eos, t * KELVIN, g.as_ref(), opts);
            if let (Some(g), Some(b)) = (&g, &before) {
                check_guess_unchanged(ctx, &format!("op {i} pure(T)"), g, b);
            }
            ctx.out.count("op.pure_t", 1);
            if let Ok(v) = res {
                let n = num(&v);
                digest_num(&mut ctx.dg, &n);
                let dist = g.as_ref().map(|g| (g.vapor().temperature.to_reduced() - t).abs() / sys.tc);
                if let Some(d) = dist {
                    ctx.out.count("probe.pure_t_guided_ok", 1);
                    if d > 0.3 {
                        ctx.out.count("window.pure_t_guess_beyond_0.3Tc", 1);
                    }
                }
                if dist.map_or(true, |d| d <= 0.3) {
                    if let Some(r) = ref_pure_t(sc.sys, t) {
                        judge(ctx, "pure-mismatch", "pure_t", format!("op {i} pure(T={t}) of {} with guess at distance {dist:?} Tc", sys.name), &n, &r, TOL_PURE, 0.0, "pure_t");
                    }
                }
                pool_v.push((v, false));
            } else if g.is_some() {
                ctx.out.count("probe.pure_t_guided_err", 1);
            }
        }
        SOp::PureP { tf, guess } => {
            let Some(rt) = ref_pure_t(sc.sys, tf * sys.tc) else { return };
            let p = rt.p;
            let g = guess.and_then(|g| (!pool_v.is_empty()).then(|| pool_v[g % pool_v.len()].0.clone()));
            let before = g.as_ref().map(fingerprint);
            let res = Vle::pure(eos, Pressure::from_reduced(p), g.as_ref(), opts);
            if let (Some(g), Some(b)) = (&g, &before) {
                check_guess_unchanged(ctx, &format!("op {i} pure(p)"), g, b);
            }
            ctx.out.count("op.pure_p", 1);
            match res {
                Ok(v) => {
                    let n = num(&v);
                    digest_num(&mut ctx.dg, &n);
                    let dist = g.as_ref().map(|g| (g.vapor().temperature.to_reduced() - rt.t).abs() / sys.tc);
                    if g.is_some() {
                        ctx.out.count("probe.pure_p_guided_ok", 1);
                    }
                    if dist.map_or(true, |d| d <= 0.3) {
                        // reference: the stand-alone solve at this pressure, which must agree with
                        // the temperature-specified equilibrium the pressure was taken from
                        let r = ref_pure_p(sc.sys, p).unwrap_or(rt.clone());
                        judge(ctx, "pure-mismatch", "pure_p", format!("op {i} pure(p={p}) of {} with guess at distance {dist:?} Tc", sys.name), &n, &r, 1e-8, 0.0, "pure_p");
                    } else {
                        ctx.out.count("window.pure_p_guess_beyond_0.3Tc", 1);
                    }
                    pool_v.push((v, false));
                }
                Err(_) => {
                    if g.is_some() {
                        ctx.out.count("probe.pure_p_guided_err", 1);
                    }
                }
            }
        }
        SOp::PureChain { tf, at_p } => {
            let last = if pool_v.is_empty() { None } else { Some(pool_v.len() - 1) };
            let op2 = if *at_p { SOp::PureP { tf: *tf, guess: last } } else { SOp::PureT { tf: *tf, guess: last } };
            ctx.out.count("probe.pure_continuation_step", 1);
            session_pure_op(ctx, sc, i, &op2, pool_v, opts);
        }
        SOp::PureTSelf { tf } => {
            let t = tf * sys.tc;
            let Ok(own) = verif::suspended(|| Vle::pure(eos, t * KELVIN, None, SolverOptions::default())) else { return };
            let r = num(&own);
            ctx.out.count("op.pure_t_own_result_as_guess", 1);
            if let Ok(v) = Vle::pure(eos, t * KELVIN, Some(&own), opts) {
                let n = num(&v);
                digest_num(&mut ctx.dg, &n);
                judge(ctx, "pure-mismatch", "pure_t", format!("op {i} pure(T={t}) of {} guided by the stand-alone result at the same temperature", sys.name), &n, &r, TOL_PURE, 0.0, "pure_t_self");
            }
        }
        SOp::PureTNpt { tf, pf } => {
            let t = tf * sys.tc;
            let Some(r) = ref_pure_t(sc.sys, t) else { return };
            let m = arr1(&[1.0]) * MOL;
            let Ok(g) = verif::suspended(|| Vle::new_npt(eos, t * KELVIN, Pressure::from_reduced(r.p * pf), &m, &m)) else { return };
            if Vle::is_trivial_solution(g.vapor(), g.liquid()) {
                return;
            }
            ctx.out.count("op.pure_t_unconverged_guess", 1);
            if let Ok(v) = Vle::pure(eos, t * KELVIN, Some(&g), opts) {
                let n = num(&v);
                digest_num(&mut ctx.dg, &n);
                judge(ctx, "pure-mismatch", "pure_t", format!("op {i} pure(T={t}) of {} with an un-converged new_npt guess at {pf} p_sat", sys.name), &n, &r, TOL_PURE, 0.0, "pure_t");
                pool_v.push((v, false));
            }
        }
        SOp::PurePNpt { tf, dt } => {
            let Some(rt) = ref_pure_t(sc.sys, tf * sys.tc) else { return };
            let m = arr1(&[1.0]) * MOL;
            let Ok(g) = verif::suspended(|| Vle::new_npt(eos, (rt.t + dt) * KELVIN, Pressure::from_reduced(rt.p), &m, &m)) else { return };
            if Vle::is_trivial_solution(g.vapor(), g.liquid()) {
                return;
            }
            ctx.out.count("op.pure_p_unconverged_guess", 1);
            if let Ok(v) = Vle::pure(eos, Pressure::from_reduced(rt.p), Some(&g), opts) {
                let n = num(&v);
                digest_num(&mut ctx.dg, &n);
                let r = ref_pure_p(sc.sys, rt.p).unwrap_or(rt.clone());
                judge(ctx, "pure-mismatch", "pure_p", format!("op {i} pure(p={}) of {} with an un-converged new_npt guess at T_sat + {dt}", rt.p, sys.name), &n, &r, 1e-8, 0.0, "pure_p");
                pool_v.push((v, false));
            }
        }
        SOp::Npt { tf, pf, guess, liquid } => {
            if pool_v.is_empty() {
                return;
            }
            let Some(rt) = ref_pure_t(sc.sys, tf * sys.tc) else { return };
            let t = tf * sys.tc;
            let p = rt.p * pf;
            let g = &pool_v[guess % pool_v.len()].0;
            let rho0 = if *liquid { g.liquid().density } else { g.vapor().density };
            let m = arr1(&[1.0]) * MOL;
            let res = State::new_npt(eos, t * KELVIN, Pressure::from_reduced(p), &m, DensityInitialization::InitialDensity(rho0));
            ctx.out.count("op.npt_initial_density", 1);
            if let Ok(s) = res {
                let rho = s.density.to_reduced();
                ctx.dg.f64(rho);
                let roots: Vec<f64> = verif::suspended(|| {
                    [DensityInitialization::Vapor, DensityInitialization::Liquid]
                        .into_iter()
                        .filter_map(|d| State::new_npt(eos, t * KELVIN, Pressure::from_reduced(p), &m, d).ok())
                        .map(|s| s.density.to_reduced())
                        .collect()
                });
                let d = roots.iter().map(|r| deviation(rho, *r, 1e-300)).fold(f64::INFINITY, f64::min);
                ctx.out.count("oracle.compared", 1);
                if !roots.is_empty() {
                    ctx.out.max("dev.npt.rel", d);
                    // the result must be a root of p(rho) = p at T: one of the stable/metastable
                    // branches, or (legally) the mechanically unstable middle root is *not* accepted
                    // by density_iteration, so equality with one of the two references is required
                    if !(d <= TOL_STATE) {
                        let pres = s.pressure(Contributions::Total).to_reduced();
                        if deviation(pres, p, 1e-300) > 1e-8 {
                            ctx.out.violate("npt-mismatch", "npt", format!("op {i} new_npt(T={t}, p={p}, InitialDensity) of {}: density {rho} has pressure {pres}", sys.name));
                        } else {
                            ctx.out.count("probe.npt_third_root", 1);
                        }
                    }
                }
            }
        }
        SOp::Nvu { tf, rf, ti } => {
            let t = tf * sys.tc;
            let m = arr1(&[1.3]) * MOL;
            let rho = quantity::Density::from_reduced(rf * sys.rhoc);
            let Ok(s0) = verif::suspended(|| State::new_nvt(eos, t * KELVIN, m.sum() / rho, &m)) else { return };
            let u = s0.molar_internal_energy(Contributions::Total);
            let a = State::new_nvu(eos, s0.volume, u, &m, Some(t * ti * KELVIN));
            let b = verif::suspended(|| State::new_nvu(eos, s0.volume, u, &m, None));
            ctx.out.count("op.nvu_initial_temperature", 1);
            if let (Ok(a), Ok(b)) = (a, b) {
                let d = deviation(a.temperature.to_reduced(), b.temperature.to_reduced(), 1e-300);
                ctx.dg.f64(a.temperature.to_reduced());
                ctx.out.max("dev.nvu.rel", d);
                ctx.out.count("oracle.compared", 1);
                // the returned state must have the specified internal energy, whatever the guess
                let du = ((a.molar_internal_energy(Contributions::Total) - u) / (quantity::RGAS * a.temperature)).into_value().abs();
                ctx.out.max("dev.nvu.spec", du);
                if !(du <= 1e-6) {
                    ctx.out.violate("state-mismatch", "nvu:specification", format!("op {i} new_nvu of {} from T0 = {ti} T: returned T={} has u - u_spec = {du:e} RT", sys.name, a.temperature));
                } else if !(d <= TOL_STATE) {
                    if a.temperature.to_reduced() < 0.45 * sys.tc {
                        // a second exact solution of the same (V, u) on the model's unphysical low-temperature
                        // branch (CO2, PC-SAFT: 43 K instead of 191 K from T0 = 0.35 T), as for new_nph / new_nps
                        ctx.out.count("window.nvu_second_root_below_0.45Tc", 1);
                    } else {
                        ctx.out.violate("state-mismatch", "nvu", format!("op {i} new_nvu of {}: T={} with initial temperature, T={} without; both have the specified internal energy", sys.name, a.temperature, b.temperature));
                    }
                }
            }
        }
        SOp::Nph { tf, ti, entropy } => {
            let t = tf * sys.tc;
            let p = Pressure::from_reduced(1.6 * sys.pc);
            let m = arr1(&[0.7]) * MOL;
            let Ok(s0) = verif::suspended(|| State::new_npt(eos, t * KELVIN, p, &m, DensityInitialization::None)) else { return };
            let (a, b) = if *entropy {
                let s = s0.molar_entropy(Contributions::Total);
                (
                    State::new_nps(eos, p, s, &m, DensityInitialization::None, Some(t * ti * KELVIN)),
                    verif::suspended(|| State::new_nps(eos, p, s, &m, DensityInitialization::None, Some(t * KELVIN * 1.02))),
                )
            } else {
                let h = s0.molar_enthalpy(Contributions::Total);
                (
                    State::new_nph(eos, p, h, &m, DensityInitialization::None, Some(t * ti * KELVIN)),
                    verif::suspended(|| State::new_nph(eos, p, h, &m, DensityInitialization::None, Some(t * KELVIN * 1.02))),
                )
            };
            ctx.out.count("op.nph_nps_initial_temperature", 1);
            if let (Ok(a), Ok(b)) = (a, b) {
                let d = deviation(a.temperature.to_reduced(), b.temperature.to_reduced(), 1e-300)
                    .max(deviation(a.density.to_reduced(), b.density.to_reduced(), 1e-300));
                ctx.dg.f64(a.temperature.to_reduced());
                ctx.out.max("dev.nph.rel", d);
                ctx.out.count("oracle.compared", 1);
                // the returned state must meet the specification, whatever the guess
                let rt = quantity::RGAS * a.temperature;
                let dspec = if *entropy {
                    ((a.molar_entropy(Contributions::Total) - s0.molar_entropy(Contributions::Total)) / quantity::RGAS).into_value().abs()
                } else {
                    ((a.molar_enthalpy(Contributions::Total) - s0.molar_enthalpy(Contributions::Total)) / rt).into_value().abs()
                }
                .max(deviation(a.pressure(Contributions::Total).to_reduced(), p.to_reduced(), 1e-300));
                ctx.out.max("dev.nph.spec", dspec);
                if !(dspec <= 1e-6) {
                    ctx.out.violate("state-mismatch", "nph:specification", format!("op {i} new_nph/nps of {} (entropy {entropy}) from T0 = {ti} T: returned (T,rho)=({},{}) misses the specification by {dspec:e}: p = {} (specified {p}), s = {} h = {} (state the specification was taken from: s = {} h = {})", sys.name, a.temperature, a.density, a.pressure(Contributions::Total), a.molar_entropy(Contributions::Total), a.molar_enthalpy(Contributions::Total), s0.molar_entropy(Contributions::Total), s0.molar_enthalpy(Contributions::Total)));
                } else if !(d <= 1e-7) {
                    if a.temperature.to_reduced() < 0.45 * sys.tc {
                        // another exact solution of the same (p, s) or (p, h) on the model's unphysical
                        // low-temperature branch (CO2, PC-SAFT: 60 K, 5.6 kmol/m3, dp/drho > 0, p and s equal to
                        // 1e-14): the specification is not unique there, the guess selects the root
                        ctx.out.count("window.nph_second_root_below_0.45Tc", 1);
                    } else {
                        ctx.out.violate("state-mismatch", "nph", format!("op {i} new_nph/nps of {} (entropy {entropy}, T0 = {ti} T): (T,rho)=({},{}) guided vs ({},{}); both meet the specification", sys.name, a.temperature, a.density, b.temperature, b.density));
                    }
                }
            }
        }
        SOp::Crit { ti } => {
            let a = State::critical_point(eos, None, Some(sys.tc * ti * KELVIN), SolverOptions::default());
            ctx.out.count("op.critical_point_initial_temperature", 1);
            if let Ok(a) = a {
                let d = deviation(a.temperature.to_reduced(), sys.tc, 1e-300);
                ctx.dg.f64(a.temperature.to_reduced());
                ctx.out.max("dev.crit.rel", d);
                ctx.out.count("oracle.compared", 1);
                if !(d <= 1e-6) {
                    ctx.out.violate("state-mismatch", "crit", format!("op {i} critical_point of {} from T0={}: Tc={} vs {}", sys.name, sys.tc * ti, a.temperature, sys.tc));
                }
            }
        }
        _ => {}
    }
}

fn session_binary_op(ctx: &mut Ctx, sc: &Session, i: usize, op: &SOp, pool_v: &mut Vec<(Vle, bool)>, opts: SolverOptions) {
    let sys = &pool().bins[sc.sys];
    let eos = &sys.eos;
    let bd_opts = (opts, opts);
    match op {
        SOp::BdT { bubble, tf, x, pf, comp, guess } => {
            let t = tf * sys.tc_low;
            let r = if *bubble { ref_bubble_t(sc.sys, t, *x) } else { ref_dew_t(sc.sys, t, *x) };
            let Some(r) = r else { return };
            // composition guess for the incipient phase
            let rcomp = if *bubble { &r.y } else { &r.x };
            let cg: Option<Array1<f64>> = match comp {
                1 if !pool_v.is_empty() => {
                    let g = &pool_v[guess % pool_v.len()].0;
                    Some(if *bubble { g.vapor().molefracs.clone() } else { g.liquid().molefracs.clone() })
                }
                2 => {
                    let d = 0.05 * ((*guess % 7) as f64 - 3.0) / 3.0;
                    let a = (rcomp[0] + d).clamp(0.01, 0.99);
                    Some(arr1(&[a, 1.0 - a]))
                }
                _ => None,
            };
            let p_init = pf.map(|f| Pressure::from_reduced(r.p * f));
            let spec = arr1(&[*x, 1.0 - *x]);
            let res = if *bubble {
                Vle::bubble_point(eos, t * KELVIN, &spec, p_init, cg.as_ref(), bd_opts)
            } else {
                Vle::dew_point(eos, t * KELVIN, &spec, p_init, cg.as_ref(), bd_opts)
            };
            ctx.out.count(if *bubble { "op.bubble_t" } else { "op.dew_t" }, 1);
            match res {
                Ok(v) => {
                    let n = num(&v);
                    digest_num(&mut ctx.dg, &n);
                    ctx.out.count("probe.bd_t_guided_ok", 1);
                    // composition guesses far from the solution are outside the quantifier
                    let comp_ok = cg.as_ref().map_or(true, |c| (c[0] - rcomp[0]).abs() <= 0.35);
                    if comp_ok {
                        judge(ctx, "bubble-dew-mismatch", "bubble_dew_t", format!("op {i} {} point of {} at T={t}, x={x}, p_init factor {pf:?}, composition guess {cg:?}", if *bubble { "bubble" } else { "dew" }, sys.name), &n, &r, TOL_BD, TOL_BD, "bd_t");
                    } else {
                        ctx.out.count("window.bd_t_composition_guess_far", 1);
                    }
                    pool_v.push((v, false));
                }
                Err(_) => ctx.out.count("probe.bd_t_guided_err", 1),
            }
        }
        SOp::BdP { bubble, tf, x, dt, comp, guess } => {
            let t = tf * sys.tc_low;
            let r = if *bubble { ref_bubble_t(sc.sys, t, *x) } else { ref_dew_t(sc.sys, t, *x) };
            let Some(r) = r else { return };
            let rcomp = if *bubble { &r.y } else { &r.x };
            let cg: Option<Array1<f64>> = match comp {
                1 if !pool_v.is_empty() => {
                    let g = &pool_v[guess % pool_v.len()].0;
                    Some(if *bubble { g.vapor().molefracs.clone() } else { g.liquid().molefracs.clone() })
                }
                _ => None,
            };
            let spec = arr1(&[*x, 1.0 - *x]);
            let p = Pressure::from_reduced(r.p);
            let t_init = (t + dt) * KELVIN;
            let res = if *bubble {
                Vle::bubble_point(eos, p, &spec, Some(t_init), cg.as_ref(), bd_opts)
            } else {
                Vle::dew_point(eos, p, &spec, Some(t_init), cg.as_ref(), bd_opts)
            };
            ctx.out.count(if *bubble { "op.bubble_p" } else { "op.dew_p" }, 1);
            match res {
                Ok(v) => {
                    let n = num(&v);
                    digest_num(&mut ctx.dg, &n);
                    ctx.out.count("probe.bd_p_guided_ok", 1);
                    let comp_ok = cg.as_ref().map_or(true, |c| (c[0] - rcomp[0]).abs() <= 0.35);
                    if comp_ok {
                        // reference: the temperature-specified equilibrium the pressure was taken from
                        judge(ctx, "bubble-dew-mismatch", "bubble_dew_p", format!("op {i} {} point of {} at p={}, x={x}, t_init = T + {dt}", if *bubble { "bubble" } else { "dew" }, sys.name, r.p), &n, &r, 1e-6, 1e-6, "bd_p");
                    } else {
                        ctx.out.count("window.bd_p_composition_guess_far", 1);
                    }
                    pool_v.push((v, false));
                }
                Err(_) => ctx.out.count("probe.bd_p_guided_err", 1),
            }
        }
        SOp::Flash { tf, z, u, ntot, guess } => {
            let t = tf * sys.tc_low;
            let (Some(rb), Some(rd)) = (ref_bubble_t(sc.sys, t, *z), ref_dew_t(sc.sys, t, *z)) else { return };
            let p = rd.p + u * (rb.p - rd.p);
            flash_op(ctx, sc, i, t, p, *z, *ntot, guess.and_then(|g| (!pool_v.is_empty()).then(|| g % pool_v.len())), pool_v, opts);
        }
        SOp::FlashNpt { tf, z, u, ntot, dy } => {
            let t = tf * sys.tc_low;
            let (Some(rb), Some(rd)) = (ref_bubble_t(sc.sys, t, *z), ref_dew_t(sc.sys, t, *z)) else { return };
            let p = rd.p + u * (rb.p - rd.p);
            let Some(r) = ref_flash(sc.sys, t, p, *z, *ntot) else { return };
            // un-converged guess: phases at (T, p) with perturbed compositions and arbitrary amounts
            let y0 = (r.y[0] + dy).clamp(0.02, 0.98);
            let x0 = (r.x[0] - dy).clamp(0.02, 0.98);
            let vm = arr1(&[y0, 1.0 - y0]) * MOL;
            let lm = arr1(&[x0, 1.0 - x0]) * MOL;
            let Ok(g) = verif::suspended(|| Vle::new_npt(eos, t * KELVIN, Pressure::from_reduced(p), &vm, &lm)) else { return };
            if Vle::is_trivial_solution(g.vapor(), g.liquid()) {
                return;
            }
            ctx.out.count("probe.flash_unconverged_new_npt_guess", 1);
            pool_v.push((g, false));
            let k = pool_v.len() - 1;
            flash_op(ctx, sc, i, t, p, *z, *ntot, Some(k), pool_v, opts);
        }
        SOp::FlashSameP { from, dt, ntot } | SOp::FlashSameT { from, pf: dt, ntot } => {
            let flashes: Vec<usize> = pool_v.iter().enumerate().filter(|(_, e)| e.1).map(|(k, _)| k).collect();
            if flashes.is_empty() {
                return;
            }
            let k = flashes[from % flashes.len()];
            let g = num(&pool_v[k].0);
            let z = (g.nv[0] + g.nl[0]) / (g.nv.iter().chain(&g.nl).sum::<f64>());
            let (t, p) = if matches!(op, SOp::FlashSameP { .. }) { (g.t + dt, g.p) } else { (g.t, g.p * dt) };
            ctx.out.count("probe.flash_continuation_same_p_or_t", 1);
            flash_op(ctx, sc, i, t, p, z, *ntot, Some(k), pool_v, opts);
        }
        SOp::TernFlash { tf, z, u, ntot, mode, dz, dt, pf } => {
            let sys = &pool().terns[0];
            let eos = &sys.eos;
            let t = tf * sys.tc_low;
            let comp = |a: f64, b: f64| arr1(&[a, b, 1.0 - a - b]);
            let zz = comp(z[0], z[1]);
            // everything that is not the judged call runs fault-free and un-guided
            let setup = verif::suspended(|| {
                let pb = Vle::bubble_point(eos, t * KELVIN, &zz, None, None, Default::default()).ok()?.vapor().pressure(Contributions::Total).to_reduced();
                let pd = Vle::dew_point(eos, t * KELVIN, &zz, None, None, Default::default()).ok()?.vapor().pressure(Contributions::Total).to_reduced();
                if !(pb > pd * 1.02) {
                    return None;
                }
                let p = pd + u * (pb - pd);
                let feed = &zz * *ntot * MOL;
                let r = Vle::tp_flash(eos, t * KELVIN, Pressure::from_reduced(p), &feed, None, SolverOptions::default(), None).ok()?;
                let g = match mode {
                    0 => None,
                    1 => {
                        let z2 = comp((z[0] + dz[0]).clamp(0.05, 0.6), (z[1] + dz[1]).clamp(0.05, 0.35));
                        Some(Vle::tp_flash(eos, t * KELVIN, Pressure::from_reduced(p), &(&z2 * MOL), None, SolverOptions::default(), None).ok()?)
                    }
                    2 => Some(Vle::tp_flash(eos, (t + dt) * KELVIN, Pressure::from_reduced(p), &feed, None, SolverOptions::default(), None).ok()?),
                    3 => Some(Vle::tp_flash(eos, t * KELVIN, Pressure::from_reduced(p * pf), &feed, None, SolverOptions::default(), None).ok()?),
                    _ => Some(r.clone()),
                };
                Some((p, feed, r, g))
            });
            let Some((p, feed, r, g)) = setup else {
                ctx.out.count("window.ternary_flash_setup_failed", 1);
                return;
            };
            let r = num(&r);
            let before = g.as_ref().map(fingerprint);
            let res = Vle::tp_flash(eos, t * KELVIN, Pressure::from_reduced(p), &feed, g.as_ref(), opts, None);
            if let (Some(g), Some(b)) = (&g, &before) {
                check_guess_unchanged(ctx, &format!("op {i} ternary tp_flash"), g, b);
            }
            ctx.out.count("op.tp_flash_ternary", 1);
            ctx.out.count(&format!("probe.ternary_flash_guess_mode{mode}"), 1);
            match res {
                Ok(v) => {
                    let n = num(&v);
                    digest_num(&mut ctx.dg, &n);
                    judge(ctx, "flash-mismatch", "tp_flash", format!("op {i} tp_flash of {} at T={t}, p={p}, z={zz}, guess mode {mode} (dz {dz:?}, dt {dt}, pf {pf})", sys.name), &n, &r, TOL_FLASH_REL, TOL_FLASH_X, "flash3");
                    // material balance of the returned phases
                    let fr = feed.to_reduced();
                    let d = (0..3).map(|k| deviation(n.nv[k] + n.nl[k], fr[k], 1e-300)).fold(0.0, f64::max);
                    ctx.out.max("dev.flash3.balance", d);
                    if !(d <= 1e-9) {
                        ctx.out.violate("flash-mismatch", "tp_flash:balance", format!("op {i} ternary tp_flash of {}: phases {:?} + {:?} do not add up to the feed {zz} * {ntot}", sys.name, n.nv, n.nl));
                    }
                }
                Err(_) => ctx.out.count("probe.ternary_flash_err", 1),
            }
        }
        SOp::FlashSameTp { from, v, ntot, use_guess } => {
            let flashes: Vec<usize> = pool_v.iter().enumerate().filter(|(_, e)| e.1).map(|(k, _)| k).collect();
            if flashes.is_empty() {
                return;
            }
            let k = flashes[from % flashes.len()];
            let g = num(&pool_v[k].0);
            let z = g.x[0] + v * (g.y[0] - g.x[0]);
            ctx.out.count("probe.flash_same_tp_other_feed", 1);
            flash_op(ctx, sc, i, g.t, g.p, z, *ntot, use_guess.then_some(k), pool_v, opts);
        }
        _ => {}
    }
}

#[allow(clippy::too_many_arguments)]
fn flash_op(ctx: &mut Ctx, sc: &Session, i: usize, t: f64, p: f64, z: f64, ntot: f64, guess: Option<usize>, pool_v: &mut Vec<(Vle, bool)>, opts: SolverOptions) {
    let sys = &pool().bins[sc.sys];
    let Some(r) = ref_flash(sc.sys, t, p, z, ntot) else { return };
    let feed = arr1(&[z * ntot, (1.0 - z) * ntot]) * MOL;
    let g = guess.map(|k| pool_v[k].0.clone());
    let before = g.as_ref().map(fingerprint);
    let res = Vle::tp_flash(&sys.eos, t * KELVIN, Pressure::from_reduced(p), &feed, g.as_ref(), opts, None);
    if let (Some(g), Some(b)) = (&g, &before) {
        check_guess_unchanged(ctx, &format!("op {i} tp_flash"), g, b);
    }
    ctx.out.count("op.tp_flash", 1);
    match res {
        Ok(v) => {
            let n = num(&v);
            digest_num(&mut ctx.dg, &n);
            for a in n.nv.iter().chain(&n.nl) {
                ctx.dg.f64(*a);
            }
            let tl = v.liquid().temperature.to_reduced();
            if deviation(n.t, t, 1e-300) > 1e-12 || deviation(tl, t, 1e-300) > 1e-12 {
                ctx.out.violate("flash-mismatch", "tp_flash:temperature", format!("op {i} tp_flash of {} at T={t}, p={p}: returned phases are at T = {} and {tl}", sys.name, n.t));
            }
            if g.is_some() {
                ctx.out.count("probe.flash_guided_ok", 1);
            }
            judge(ctx, "flash-mismatch", "tp_flash", format!("op {i} tp_flash of {} at T={t}, p={p}, z={z}, guess {:?}", sys.name, guess), &n, &r, TOL_FLASH_REL, TOL_FLASH_X, "flash");
            let da = dev_amounts(&n, &r);
            ctx.out.max("dev.flash.amounts", da);
            if !(da <= TOL_FLASH_REL) {
                let tot_got: f64 = n.nv.iter().chain(&n.nl).sum();
                let tot_ref: f64 = r.nv.iter().chain(&r.nl).sum();
                let sig = if (tot_got - tot_ref).abs() / tot_ref > 1e-6 { "tp_flash:mass-balance" } else { "tp_flash:amounts" };
                ctx.out.violate(
                    "flash-amounts",
                    sig,
                    format!("op {i} tp_flash of {} at T={t}, p={p}, z={z}, N={ntot} with guess {:?}: phase amounts V={:?} L={:?} differ from the stand-alone result V={:?} L={:?}", sys.name, guess, n.nv, n.nl, r.nv, r.nl),
                );
            }
            pool_v.push((v, true));
        }
        Err(_) => {
            if g.is_some() {
                ctx.out.count("probe.flash_guided_err", 1);
            }
        }
    }
}

// ------------------------------------------------------------------ drivers

fn linspace(a: f64, b: f64, n: usize) -> Vec<f64> {
    if n == 1 {
        return vec![a];
    }
    (0..n).map(|i| a + (b - a) * i as f64 / (n - 1) as f64).collect()
}

fn exec_driver(sc: &Driver) -> RunOutcome {
    let mut ctx = Ctx::new();
    let opts = options(sc.max_iter);
    if sc.max_iter.is_some() {
        ctx.out.count("fault.iteration_budget_cut", 1);
    }
    match &sc.kind {
        DKind::Pure | DKind::ParPure { .. } => driver_pure(&mut ctx, sc, opts),
        DKind::BinaryVleT { tf } => driver_binary_t(&mut ctx, sc, *tf, opts),
        DKind::BinaryVleP { tf, x } => driver_binary_p(&mut ctx, sc, *tf, *x, opts),
        DKind::BubbleLine { z } => driver_line(&mut ctx, sc, *z, true, opts),
        DKind::DewLine { z } => driver_line(&mut ctx, sc, *z, false, opts),
        DKind::FlashLineT { z, tf0, tf1, u } => driver_flash_line(&mut ctx, sc, *z, *tf0, *tf1, *u),
    }
    verif::uninstall();
    ctx.out.digest = ctx.dg.0;
    ctx.out.nontrivial = ctx.out.counters.get("oracle.compared").copied().unwrap_or(0) >= 2;
    ctx.out
}

fn fired_keys(ev: &[verif::FaultEvent]) -> Vec<f64> {
    ev.iter().filter(|e| e.fired).map(|e| e.key).collect()
}

fn near(keys: &[f64], k: f64) -> bool {
    keys.iter().any(|x| (x - k).abs() <= 1e-9 * k.abs().max(1.0))
}

fn driver_pure(ctx: &mut Ctx, sc: &Driver, opts: SolverOptions) {
    let sys = &pool().pures[sc.sys % pool().pures.len()];
    let s = sc.sys % pool().pures.len();
    let tmin = sc.tmin_f * sys.tc;
    let n = sc.npoints;
    let tmax = tmin + (sys.tc - tmin) * ((n - 2) as f64 / (n - 1) as f64);
    install_faults(&sc.faults, (tmin, tmax));
    let dia = match &sc.kind {
        DKind::ParPure { chunksize, pool: ps, steal_permille, seed } => {
            rayon_core::sim::configure(*seed, *steal_permille, 0);
            let tp = rayon::ThreadPoolBuilder::new().num_threads(*ps).build().unwrap();
            let d = PhaseDiagram::par_pure(&sys.eos, tmin * KELVIN, n, *chunksize, tp, None, opts);
            let (st, _) = rayon_core::sim::take();
            ctx.out.count("fault.job_stolen_runs_before", st.stolen_before);
            ctx.out.count("rayon.joins", st.joins);
            d
        }
        _ => PhaseDiagram::pure(&sys.eos, tmin * KELVIN, n, None, opts),
    };
    let ev = ctx.collect_faults();
    let fired = fired_keys(&ev);
    ctx.out.count("op.driver_pure", 1);
    let Ok(dia) = dia else {
        // the only fallible step of the driver is the critical point, which succeeded
        // when the pool was built: a failed *point* must never abort the diagram
        ctx.out.violate("driver-aborted", "driver_pure", format!("diagram of {} ({} points from {} Tc) returned an error although only individual points can fail (faults fired at {:?})", sys.name, n, sc.tmin_f, fired));
        return;
    };
    let grid = linspace(tmin, tmax, n - 1);
    let mut got: Vec<VleNum> = dia.states.iter().map(num).collect();
    let last = got.pop();
    ctx.out.steps += grid.len() as u64;
    // critical point last
    match last {
        Some(l) if deviation(l.t, sys.tc, 1e-300) <= 1e-8 && l.rho_v == l.rho_l => {}
        _ => ctx.out.violate("driver-critical-last", "driver_pure", "last state of the diagram is not the critical point".into()),
    }
    // O2 + order
    let mut prev = 0.0;
    for g in &got {
        digest_num(&mut ctx.dg, g);
        if !(g.t > prev) {
            ctx.out.violate("driver-order", "driver_pure", format!("temperatures not strictly increasing: {} after {}", g.t, prev));
        }
        prev = g.t;
        let Some(tg) = grid.iter().find(|t| deviation(**t, g.t, 1e-300) <= 1e-9) else {
            ctx.out.violate("driver-off-grid", "driver_pure", format!("state at T={} is not a grid point", g.t));
            continue;
        };
        if let Some(r) = ref_pure_t(s, *tg) {
            let mut r = r;
            r.t = g.t; // the two linspace implementations differ by 1 ulp
            judge(ctx, "driver-point-mismatch", "driver_pure", format!("diagram of {} ({} points from {} Tc): state at T={}", sys.name, n, sc.tmin_f, g.t), g, &r, TOL_PURE.max(1e-9), 0.0, "driver_pure");
        }
    }
    // O3: progress once faults stop
    if sc.max_iter.is_none() {
        for t in &grid {
            if near(&fired, *t) {
                continue;
            }
            if ref_pure_t(s, *t).is_some() && !got.iter().any(|g| deviation(g.t, *t, 1e-300) <= 1e-9) {
                ctx.out.violate(
                    "driver-point-missing",
                    "driver_pure",
                    format!("diagram of {} ({} points from {} Tc): grid point T={t} has no injected fault and a stand-alone solution, but is missing (faults fired at {:?})", sys.name, n, sc.tmin_f, fired),
                );
            } else {
                ctx.out.count("oracle.presence_checked", 1);
            }
        }
        if !fired.is_empty() && got.len() > 1 {
            ctx.out.count("probe.progress_after_injected_failure", 1);
        }
    }
}

fn driver_binary_t(ctx: &mut Ctx, sc: &Driver, tf: f64, opts: SolverOptions) {
    let s = sc.sys % pool().bins.len();
    let sys = &pool().bins[s];
    let t = tf * sys.tc_low;
    install_faults(&sc.faults, (0.0, 1.0));
    let dia = PhaseDiagram::binary_vle(&sys.eos, t * KELVIN, Some(sc.npoints), None, (opts, opts));
    let ev = ctx.collect_faults();
    let fired = fired_keys(&ev);
    ctx.out.count("op.driver_binary_vle_t", 1);
    let Ok(dia) = dia else {
        ctx.out.violate("driver-aborted", "driver_binary_t", format!("binary_vle of {} at T={t} ({} points) returned an error although both pure components are subcritical and only individual points can fail (faults fired at {:?})", sys.name, sc.npoints, fired));
        return;
    };
    let grid = linspace(0.0, 1.0, sc.npoints);
    let got: Vec<VleNum> = dia.states.iter().map(num).collect();
    ctx.out.steps += grid.len() as u64;
    let mut prev = -1.0;
    for (k, g) in got.iter().enumerate() {
        digest_num(&mut ctx.dg, g);
        let x0 = g.x[0];
        if !(x0 > prev) {
            ctx.out.violate("driver-order", "driver_binary_t", format!("liquid compositions not strictly increasing: {x0} after {prev}"));
        }
        prev = x0;
        if k == 0 || k + 1 == got.len() {
            continue; // pure component end points
        }
        let Some(xg) = grid.iter().find(|x| (**x - x0).abs() <= 1e-9) else {
            ctx.out.violate("driver-off-grid", "driver_binary_t", format!("state with x={x0} is not a grid point"));
            continue;
        };
        if let Some(r) = ref_bubble_t(s, t, *xg) {
            judge(ctx, "driver-point-mismatch", "driver_binary_t", format!("binary_vle of {} at T={t} ({} points): state at x={x0}", sys.name, sc.npoints), g, &r, TOL_BD, TOL_BD, "driver_binary_t");
        }
    }
    if !fired.is_empty() && got.len() > 2 {
        ctx.out.count("probe.progress_after_injected_failure", 1);
    }
    if got.len() < sc.npoints {
        ctx.out.count("probe.binary_vle_points_lost", (sc.npoints - got.len()) as u64);
    }
}

fn driver_binary_p(ctx: &mut Ctx, sc: &Driver, tf: f64, x: f64, opts: SolverOptions) {
    let s = sc.sys % pool().bins.len();
    let sys = &pool().bins[s];
    let Some(r0) = ref_bubble_t(s, tf * sys.tc_low, x) else { return };
    let p = r0.p;
    install_faults(&sc.faults, (0.0, 1.0));
    let dia = PhaseDiagram::binary_vle(&sys.eos, Pressure::from_reduced(p), Some(sc.npoints), None, (opts, opts));
    let ev = ctx.collect_faults();
    let _ = fired_keys(&ev);
    ctx.out.count("op.driver_binary_vle_p", 1);
    let Ok(dia) = dia else {
        ctx.out.count("probe.driver_err", 1);
        return;
    };
    let got: Vec<VleNum> = dia.states.iter().map(num).collect();
    ctx.out.steps += got.len() as u64;
    for (k, g) in got.iter().enumerate() {
        digest_num(&mut ctx.dg, g);
        if k == 0 || k + 1 == got.len() {
            continue;
        }
        // stand-alone solve at the state's own specification (p, x) started close to it
        let spec = arr1(&[g.x[0], 1.0 - g.x[0]]);
        let r = verif::suspended(|| {
            Vle::bubble_point(&sys.eos, Pressure::from_reduced(p), &spec, Some((g.t * 1.004) * KELVIN), None, Default::default())
                .ok()
                .map(|v| num(&v))
        });
        if let Some(r) = r {
            judge(ctx, "driver-point-mismatch", "driver_binary_p", format!("binary_vle of {} at p={p} ({} points): state at x={}", sys.name, sc.npoints, g.x[0]), g, &r, 1e-6, 1e-6, "driver_binary_p");
        }
    }
}

fn driver_line(ctx: &mut Ctx, sc: &Driver, z: f64, bubble: bool, opts: SolverOptions) {
    let s = sc.sys % pool().bins.len();
    let sys = &pool().bins[s];
    let moles = arr1(&[z, 1.0 - z]) * MOL;
    let Ok(cp) = verif::suspended(|| State::critical_point(&sys.eos, Some(&moles), None, SolverOptions::default())) else { return };
    let tc = cp.temperature.to_reduced();
    let tmin = sc.tmin_f * tc;
    let n = sc.npoints;
    let nt = if bubble { n } else { n / 2 };
    let tmax = tmin + (tc - tmin) * ((nt - 2) as f64 / (nt - 1) as f64);
    install_faults(&sc.faults, (tmin, tmax));
    let dia = if bubble {
        PhaseDiagram::bubble_point_line(&sys.eos, &moles, tmin * KELVIN, n, None, (opts, opts))
    } else {
        PhaseDiagram::dew_point_line(&sys.eos, &moles, tmin * KELVIN, n, None, (opts, opts))
    };
    let ev = ctx.collect_faults();
    let fired = fired_keys(&ev);
    ctx.out.count(if bubble { "op.driver_bubble_line" } else { "op.driver_dew_line" }, 1);
    let Ok(dia) = dia else {
        ctx.out.violate("driver-aborted", "driver_line", format!("{} line of {} (z={z}, {} points) returned an error although its critical point is found and only individual points can fail (faults fired at {:?})", if bubble { "bubble" } else { "dew" }, sys.name, n, fired));
        return;
    };
    let grid = linspace(tmin, tmax, nt - 1);
    let mut got: Vec<VleNum> = dia.states.iter().map(num).collect();
    if got.last().map_or(false, |l| deviation(l.t, tc, 1e-300) <= 1e-8) {
        got.pop();
    }
    ctx.out.steps += got.len() as u64;
    if std::env::var("VERIF_DEBUG").is_ok() {
        eprintln!("grid {grid:?} tc {tc} fired {fired:?}");
        for g in &got {
            eprintln!("  state T={} p={} x={:?} y={:?}", g.t, g.p, g.x, g.y);
        }
    }
    let mut present = vec![false; grid.len()];
    let (mut prev_t, mut prev_p, mut in_p_part) = (0.0f64, 0.0f64, false);
    let mut p_dir: Option<bool> = None;
    for g in &got {
        digest_num(&mut ctx.dg, g);
        // ordering: no point twice; temperatures increase along the temperature-specified
        // part, pressures along the pressure-specified part of the dew line
        let on_grid = grid.iter().any(|t| deviation(*t, g.t, 1e-300) <= 1e-9);
        if !in_p_part && on_grid && g.t > prev_t * (1.0 + 1e-9) {
            prev_t = g.t;
            prev_p = g.p;
        } else if !bubble && !in_p_part {
            // junction of the dew line: its pressure grid starts at the pressure of the last
            // temperature-specified point, so that one point is (by design) computed twice
            in_p_part = true;
            if !(g.p >= prev_p * (1.0 - 1e-9)) {
                ctx.out.violate("driver-order", "driver_line", format!("dew line of {} (z={z}): pressure {} follows {}", sys.name, g.p, prev_p));
            }
            prev_p = g.p;
        } else if in_p_part {
            // the pressure grid runs from the junction towards the critical pressure, which lies
            // below the junction when the temperature part ended in the retrograde region
            let up = p_dir.get_or_insert(g.p > prev_p);
            let ok = if *up { g.p > prev_p * (1.0 + 1e-9) } else { g.p < prev_p * (1.0 - 1e-9) };
            if !ok {
                ctx.out.violate("driver-order", "driver_line", format!("dew line of {} (z={z}): pressure {} follows {} (point repeated or out of order)", sys.name, g.p, prev_p));
            }
            prev_p = g.p;
        } else {
            ctx.out.violate("driver-order", "driver_line", format!("bubble line of {} (z={z}): temperature {} follows {} (point repeated or out of order)", sys.name, g.t, prev_t));
        }
        let spec_comp = if bubble { g.x[0] } else { g.y[0] };
        if (spec_comp - z).abs() > 1e-9 {
            ctx.out.violate("driver-point-mismatch", "driver_line", format!("state at T={} has specified-phase composition {spec_comp}, expected {z}", g.t));
            continue;
        }
        if let Some(k) = grid.iter().position(|t| deviation(*t, g.t, 1e-300) <= 1e-9) {
            present[k] = true;
            // only well inside the two-phase region the stand-alone start is reliable, and only
            // inside the calibrated temperature window of the property (below 0.65 of the lower
            // T_c the *un-guided* Peng-Robinson bubble point was seen to "converge" to an empty
            // system, p = 1e-196 - a defect of the stand-alone solve, i.e. C05, not of the guess)
            if g.t < 0.65 * sys.tc_low {
                ctx.out.count("window.line_point_below_0.65Tc_low", 1);
            } else if g.t <= 0.93 * tc {
                let r = if bubble { ref_bubble_t(s, grid[k], z) } else { ref_dew_t(s, grid[k], z) };
                if let Some(r) = r {
                    judge(ctx, "driver-point-mismatch", "driver_line", format!("{} line of {} (z={z}, {} points from {} Tc): state at T={}", if bubble { "bubble" } else { "dew" }, sys.name, n, sc.tmin_f, g.t), g, &r, TOL_BD, TOL_BD, "driver_line");
                }
            } else {
                ctx.out.count("window.line_point_above_0.93Tc", 1);
            }
        } else if !bubble {
            // pressure-specified part of the dew line: check at the state's own (p, y)
            if g.t <= 0.93 * tc {
                let spec = arr1(&[z, 1.0 - z]);
                let r = verif::suspended(|| {
                    Vle::dew_point(&sys.eos, Pressure::from_reduced(g.p), &spec, Some((g.t * 1.003) * KELVIN), None, Default::default())
                        .ok()
                        .map(|v| num(&v))
                });
                if let Some(r) = r {
                    judge(ctx, "driver-point-mismatch", "driver_line", format!("dew line of {} (z={z}): pressure-specified state at p={}", sys.name, g.p), g, &r, 1e-6, 1e-6, "driver_line_p");
                }
            }
        } else {
            ctx.out.violate("driver-off-grid", "driver_line", format!("state at T={} is not a grid point", g.t));
        }
    }
    // O3: a point whose predecessor is absent was solved stand-alone by the driver
    if sc.max_iter.is_none() {
        for k in 0..grid.len() {
            let standalone_call = k == 0 || !present[k - 1];
            if !standalone_call || near(&fired, grid[k]) || grid[k] > 0.93 * tc || grid[k] < 0.65 * sys.tc_low {
                continue;
            }
            let r = if bubble { ref_bubble_t(s, grid[k], z) } else { ref_dew_t(s, grid[k], z) };
            if r.is_some() && !present[k] {
                ctx.out.violate(
                    "driver-point-missing",
                    "driver_line",
                    format!("{} line of {} (z={z}): grid point T={} is solved without a guess by the driver, has no injected fault and a stand-alone solution, but is missing", if bubble { "bubble" } else { "dew" }, sys.name, grid[k]),
                );
            } else {
                ctx.out.count("oracle.presence_checked", 1);
            }
        }
        if !fired.is_empty() && got.len() > 1 {
            ctx.out.count("probe.progress_after_injected_failure", 1);
        }
    }
}

fn driver_flash_line(ctx: &mut Ctx, sc: &Driver, z: f64, tf0: f64, tf1: f64, u: f64) {
    let s = sc.sys % pool().bins.len();
    let sys = &pool().bins[s];
    let (t0, t1) = (tf0 * sys.tc_low, tf1 * sys.tc_low);
    // a pressure inside the envelope at both ends
    let (Some(b0), Some(d0), Some(b1), Some(d1)) = (ref_bubble_t(s, t0, z), ref_dew_t(s, t0, z), ref_bubble_t(s, t1, z), ref_dew_t(s, t1, z)) else { return };
    let lo = d0.p.max(d1.p);
    let hi = b0.p.min(b1.p);
    if !(hi > lo * 1.05) {
        ctx.out.count("window.flash_line_no_common_pressure", 1);
        return;
    }
    let p = lo + u * (hi - lo);
    let ntot = 2.0;
    let feed = arr1(&[z * ntot, (1.0 - z) * ntot]) * MOL;
    install_faults(&sc.faults, (t0.min(t1), t0.max(t1)));
    let dia = PhaseDiagram::lle(&sys.eos, Pressure::from_reduced(p), &feed, t0 * KELVIN, t1 * KELVIN, Some(sc.npoints));
    let ev = ctx.collect_faults();
    let fired = fired_keys(&ev);
    ctx.out.count("op.driver_flash_line", 1);
    let Ok(dia) = dia else {
        ctx.out.violate("driver-aborted", "driver_flash_line", format!("flash line of {} (z={z}, p={p}) returned an error although only individual points can fail (faults fired at {:?})", sys.name, fired));
        return;
    };
    let grid = linspace(t0, t1, sc.npoints);
    ctx.out.steps += grid.len() as u64;
    let mut prev_t: Option<f64> = None;
    for v in &dia.states {
        let g = num(v);
        digest_num(&mut ctx.dg, &g);
        // the traversal visits every temperature once, in grid order
        if let Some(pt) = prev_t {
            if !((g.t - pt) * (t1 - t0) > 0.0) {
                ctx.out.violate("driver-order", "driver_flash_line", format!("flash line of {} (z={z}, p={p}): temperature {} follows {} (point repeated or out of order)", sys.name, g.t, pt));
            }
        }
        prev_t = Some(g.t);
        // both phases are at the specified temperature and pressure
        let tl = v.liquid().temperature.to_reduced();
        let pl = v.liquid().pressure(Contributions::Total).to_reduced();
        if deviation(tl, g.t, 1e-300) > 1e-12 || deviation(pl, p, 1e-300) > 1e-6 || deviation(g.p, p, 1e-300) > 1e-6 {
            ctx.out.violate("driver-point-mismatch", "driver_flash_line", format!("flash line of {} (z={z}, p={p}): state at T={} has phases at (T, p) = ({}, {}) and ({tl}, {pl})", sys.name, g.t, g.t, g.p));
        }
        let Some(tg) = grid.iter().find(|t| deviation(**t, g.t, 1e-300) <= 1e-9) else {
            ctx.out.violate("driver-off-grid", "driver_flash_line", format!("state at T={} is not a grid point", g.t));
            continue;
        };
        if let Some(r) = ref_flash(s, *tg, p, z, ntot) {
            judge(ctx, "driver-point-mismatch", "driver_flash_line", format!("flash line of {} (z={z}, p={p}): state at T={}", sys.name, g.t), &g, &r, TOL_FLASH_REL, TOL_FLASH_X, "driver_flash");
            let da = dev_amounts(&g, &r);
            ctx.out.max("dev.driver_flash.amounts", da);
            if !(da <= TOL_FLASH_REL) {
                ctx.out.violate("flash-amounts", "driver_flash_line:amounts", format!("flash line of {} (z={z}, p={p}): state at T={} has phase amounts V={:?} L={:?}, stand-alone V={:?} L={:?}", sys.name, g.t, g.nv, g.nl, r.nv, r.nl));
            }
        }
    }
    if !fired.is_empty() && dia.states.len() > 1 {
        ctx.out.count("probe.progress_after_injected_failure", 1);
    }
}

// ------------------------------------------------------------------ engine

pub struct C12 {
    pub driver: bool,
    /// fault-free configuration (run separately so relaxations hide no ordinary bug)
    pub no_faults: bool,
}

fn gen_session(rng: &mut Rng, tier: Tier, no_faults: bool) -> Session {
    let p = pool();
    let binary = rng.chance(0.55);
    let sys = if binary { rng.below(p.bins.len()) } else { rng.below(p.pures.len()) };
    let maxops = match tier {
        Tier::Quick => 12,
        Tier::Thorough => 30,
    };
    let n = rng.range(2, maxops);
    let mut ops = Vec::new();
    // continuation pattern (pure systems): a chain of solves each guided by the previous one,
    // descending or ascending in temperature with steps up to 0.25 T_c
    if !binary && rng.chance(0.35) {
        let down = rng.chance(0.6);
        let mut tf = if down { rng.uniform(0.85, 0.98) } else { rng.uniform(0.45, 0.6) };
        let at_p = rng.chance(0.25);
        ops.push(SOp::PureT { tf, guess: None });
        for _ in 1..n {
            let step = rng.uniform(0.01, 0.25);
            tf = q9(if down { tf - step } else { tf + step });
            if !(0.45..=0.98).contains(&tf) {
                break;
            }
            ops.push(SOp::PureChain { tf, at_p });
        }
        let faults = Vec::new();
        return Session { binary, sys, ops, faults, max_iter: None };
    }
    for _ in 0..n {
        if binary {
            let tf = rng.uniform(0.65, 0.95);
            let x = rng.uniform(0.05, 0.95);
            let r = rng.below(14);
            ops.push(match r {
                12..=13 => SOp::TernFlash {
                    tf: rng.uniform(0.65, 0.92),
                    z: [q9(rng.uniform(0.1, 0.5)), q9(rng.uniform(0.1, 0.3))],
                    u: rng.uniform(0.15, 0.85),
                    ntot: rng.uniform(0.5, 4.0),
                    mode: rng.below(5) as u8,
                    dz: [q9(rng.uniform(-0.15, 0.15)), q9(rng.uniform(-0.1, 0.1))],
                    dt: q9(rng.uniform(-6.0, 6.0)),
                    pf: q9(rng.uniform(0.9, 1.1)),
                },
                0..=3 => SOp::BdT {
                    bubble: rng.chance(0.5),
                    tf,
                    x,
                    pf: if rng.chance(0.8) { Some(q9((rng.uniform(-1.0, 1.0) * 1.05f64).exp())) } else { None },
                    comp: rng.below(3) as u8,
                    guess: rng.below(64),
                },
                4 => SOp::BdP {
                    bubble: rng.chance(0.5),
                    tf: rng.uniform(0.65, 0.9),
                    x,
                    dt: rng.uniform(-12.0, 12.0),
                    comp: rng.below(2) as u8,
                    guess: rng.below(64),
                },
                5..=7 => SOp::Flash {
                    tf: rng.uniform(0.65, 0.9),
                    z: rng.uniform(0.15, 0.85),
                    u: rng.uniform(0.15, 0.85),
                    ntot: rng.uniform(0.5, 4.0),
                    guess: if rng.chance(0.7) { Some(rng.below(64)) } else { None },
                },
                11 => SOp::FlashNpt { tf: rng.uniform(0.65, 0.9), z: rng.uniform(0.15, 0.85), u: rng.uniform(0.15, 0.85), ntot: rng.uniform(0.5, 4.0), dy: rng.uniform(-0.08, 0.08) },
                8 => SOp::FlashSameTp {
                    from: rng.below(64),
                    v: rng.uniform(0.15, 0.85),
                    ntot: rng.uniform(0.5, 4.0),
                    use_guess: rng.chance(0.8),
                },
                _ => {
                    if rng.chance(0.5) {
                        SOp::FlashSameP { from: rng.below(64), dt: rng.uniform(-6.0, 6.0), ntot: rng.uniform(0.5, 4.0) }
                    } else {
                        SOp::FlashSameT { from: rng.below(64), pf: rng.uniform(0.9, 1.1), ntot: rng.uniform(0.5, 4.0) }
                    }
                }
            });
        } else {
            let r = rng.below(16);
            let guess = if rng.chance(0.8) { Some(rng.below(64)) } else { None };
            ops.push(match r {
                14..=15 => SOp::PureTSelf { tf: rng.uniform(0.45, 0.98) },
                12 => SOp::PureTNpt { tf: rng.uniform(0.5, 0.95), pf: q9((rng.uniform(-1.0, 1.0) * 1.05f64).exp()) },
                13 => SOp::PurePNpt { tf: rng.uniform(0.5, 0.95), dt: rng.uniform(-12.0, 12.0) },
                0..=4 => SOp::PureT { tf: rng.uniform(0.45, 0.98), guess },
                5..=6 => SOp::PureP { tf: rng.uniform(0.5, 0.97), guess },
                7 => SOp::Npt {
                    tf: rng.uniform(0.5, 0.95),
                    pf: *rng.pick(&[0.5, 0.9, 1.1, 2.0]),
                    guess: rng.below(64),
                    liquid: rng.chance(0.5),
                },
                // (initial temperatures within the property's factor 3 of the solution, log-uniform)
                8 => SOp::Nvu { tf: rng.uniform(0.6, 1.4), rf: rng.uniform(0.05, 2.0), ti: q9((rng.uniform(-1.0, 1.0) * 1.08f64).exp()) },
                9..=10 => SOp::Nph { tf: rng.uniform(0.7, 1.5), ti: q9((rng.uniform(-1.0, 1.0) * 1.08f64).exp()), entropy: rng.chance(0.5) },
                _ => SOp::Crit { ti: rng.uniform(0.8, 1.5) },
            });
        }
    }
    let mut faults = Vec::new();
    if !no_faults {
        // swarm: each run enables a random subset of the fault kinds
        for site in ["pure_t.skip_init", "pure_t.skip_ideal", "bubble_dew.skip_ideal", "tp_flash.skip_init"] {
            if rng.chance(0.35) {
                faults.push(FaultSpec {
                    site: site.into(),
                    lo: 0.0,
                    hi: 1e9,
                    budget: rng.range(1, 4) as u32,
                    relative: false,
                });
            }
        }
    }
    let max_iter = if !no_faults && rng.chance(0.15) { Some(rng.range(3, 12)) } else { None };
    Session { binary, sys, ops, faults, max_iter }
}

fn gen_driver(rng: &mut Rng, tier: Tier, no_faults: bool) -> Driver {
    let maxn = match tier {
        Tier::Quick => 30,
        Tier::Thorough => 120,
    };
    let npoints = rng.range(4, maxn);
    let k = rng.below(10);
    let (kind, site_fail, site_skip): (DKind, &str, &str) = match k {
        0..=2 => (DKind::Pure, "pure_t.fail", "pure_t.skip_ideal"),
        3 => (
            DKind::ParPure {
                chunksize: rng.range(1, npoints + 2),
                pool: rng.range(1, 8),
                steal_permille: *rng.pick(&[0u32, 300, 700, 1000]),
                seed: rng.next(),
            },
            "pure_t.fail",
            "pure_t.skip_init",
        ),
        4..=5 => (DKind::BinaryVleT { tf: rng.uniform(0.65, 0.95) }, "bubble_dew.fail_x", "bubble_dew.skip_ideal"),
        6 => (DKind::BinaryVleP { tf: rng.uniform(0.65, 0.9), x: rng.uniform(0.2, 0.8) }, "bubble_dew.fail_x", "bubble_dew.fail_x"),
        7 => (DKind::BubbleLine { z: rng.uniform(0.1, 0.9) }, "bubble_dew.fail_tp", "bubble_dew.skip_ideal"),
        8 => (DKind::DewLine { z: rng.uniform(0.1, 0.9) }, "bubble_dew.fail_tp", "bubble_dew.skip_ideal"),
        _ => (
            DKind::FlashLineT { z: rng.uniform(0.25, 0.75), tf0: rng.uniform(0.7, 0.9), tf1: rng.uniform(0.7, 0.9), u: rng.uniform(0.2, 0.8) },
            "tp_flash.fail_t",
            "tp_flash.skip_init",
        ),
    };
    let npoints = match kind {
        DKind::DewLine { .. } => npoints.max(8),
        DKind::BinaryVleT { .. } | DKind::BinaryVleP { .. } => npoints.min(41),
        _ => npoints,
    };
    let mut faults = Vec::new();
    if !no_faults {
        // a few failing points placed on the grid (injected failure of the per-point solver)
        let nf = rng.range(0, 3);
        for _ in 0..nf {
            let c = rng.uniform(0.0, 1.0);
            let w = if rng.chance(0.5) { q9(0.5 / npoints as f64) } else { rng.uniform(0.0, 0.15) };
            faults.push(FaultSpec { site: site_fail.into(), lo: q9((c - w).max(0.0)), hi: q9((c + w).min(1.0)), budget: rng.range(1, 6) as u32, relative: true });
        }
        if rng.chance(0.4) {
            let c = rng.uniform(0.0, 1.0);
            faults.push(FaultSpec { site: site_skip.into(), lo: q9((c - 0.2).max(0.0)), hi: q9((c + 0.2).min(1.0)), budget: rng.range(1, 5) as u32, relative: true });
        }
    }
    let max_iter = if !no_faults && rng.chance(0.1) { Some(rng.range(4, 15)) } else { None };
    Driver {
        kind,
        sys: rng.below(64),
        npoints,
        tmin_f: rng.uniform(0.5, 0.85),
        faults,
        max_iter,
    }
}

impl Engine for C12 {
    type Scenario = Scenario;
    fn property(&self) -> &'static str {
        "C12"
    }
    fn name(&self) -> &'static str {
        match (self.driver, self.no_faults) {
            (false, false) => "c12-session",
            (false, true) => "c12-session-nofault",
            (true, false) => "c12-driver",
            (true, true) => "c12-driver-nofault",
        }
    }
    fn generate(&self, seed: u64, tier: Tier) -> Scenario {
        let mut rng = Rng::new(seed);
        if self.driver {
            Scenario::Driver(gen_driver(&mut rng, tier, self.no_faults))
        } else {
            Scenario::Session(gen_session(&mut rng, tier, self.no_faults))
        }
    }
    fn execute(&self, sc: &Scenario) -> RunOutcome {
        let mut o = match sc {
            Scenario::Session(s) => exec_session(s),
            Scenario::Driver(d) => exec_driver(d),
        };
        o.distinct.push(Digest::of_value(&serde_json::to_value(sc).unwrap()));
        o
    }
    fn shrink(&self, sc: &Scenario) -> Vec<Scenario> {
        let mut v = Vec::new();
        match sc {
            Scenario::Session(s) => {
                let n = s.ops.len();
                if n > 1 {
                    let mut t = s.clone();
                    t.ops.truncate(n / 2);
                    v.push(Scenario::Session(t));
                    let mut t = s.clone();
                    t.ops.drain(..n / 2);
                    v.push(Scenario::Session(t));
                    for j in 0..n {
                        let mut t = s.clone();
                        t.ops.remove(j);
                        v.push(Scenario::Session(t));
                    }
                }
                for j in 0..s.faults.len() {
                    let mut t = s.clone();
                    t.faults.remove(j);
                    v.push(Scenario::Session(t));
                }
                if s.max_iter.is_some() {
                    let mut t = s.clone();
                    t.max_iter = None;
                    v.push(Scenario::Session(t));
                }
                if s.sys != 0 {
                    let mut t = s.clone();
                    t.sys = 0;
                    v.push(Scenario::Session(t));
                }
            }
            Scenario::Driver(d) => {
                for j in 0..d.faults.len() {
                    let mut t = d.clone();
                    t.faults.remove(j);
                    v.push(Scenario::Driver(t));
                }
                for n in [4, d.npoints / 2, d.npoints - 1] {
                    if n >= 4 && n < d.npoints && !matches!(d.kind, DKind::DewLine { .. }) {
                        let mut t = d.clone();
                        t.npoints = n;
                        v.push(Scenario::Driver(t));
                    }
                }
                if d.max_iter.is_some() {
                    let mut t = d.clone();
                    t.max_iter = None;
                    v.push(Scenario::Driver(t));
                }
                if d.sys != 0 {
                    let mut t = d.clone();
                    t.sys = 0;
                    v.push(Scenario::Driver(t));
                }
            }
        }
        v
    }
    fn rule(&self) -> String {
        if self.driver {
            "one case = one call of a continuation driver (PhaseDiagram::pure / par_pure / binary_vle at T and at p / bubble_point_line / dew_point_line / lle flash line) with seeded npoints, range and a fault plan (injected failures of the per-point solver placed on the grid, skipped initialisation stages, iteration budget cuts); every returned point is compared with the stand-alone solve at its own specification (fault points suspended), plus ordering, critical-point-last and bounded progress once faults stop; distinct = distinct scenario JSON; non-trivial = at least two points compared.".into()
        } else {
            "one case = a seeded session of 2..30 guided solves against one system (pure VLE at T/p guided by earlier results, by continuation chains in either direction or by un-converged new_npt guesses; bubble/dew at T/p with pressure/temperature and composition guesses; Tp-flash guided by earlier flashes incl. same-(T,p)-other-feed, same-p-other-T, same-T-other-p and un-converged new_npt guesses; new_npt with InitialDensity; new_nvu/nph/nps with initial temperature; critical point) in which later operations take earlier results as guesses, with buggify faults (initialisation stage skipped, guess discarded, iteration budget cut); oracle = memoryless stand-alone solve applied inside the property's window (guess within 0.3 Tc / factor 3 in pressure); distinct = distinct scenario JSON; non-trivial = at least one guided result compared.".into()
        }
    }
    fn components(&self) -> Value {
        json!({
            "real": ["feos-core phase equilibria (vle_pure, bubble_dew, tp_flash, phase diagrams, state constructors, density iteration, critical point)", "PC-SAFT, SAFT-VR Mie, Peng-Robinson models", "rayon iterators (par_pure)"],
            "stub": ["rayon-core -> deterministic stand-in (sequential steals)", "getrandom(2) -> seeded"],
            "hooks": ["feos_core::verif fault points: pure_t.{fail,skip_init,skip_ideal}, pure_p.fail, bubble_dew.{fail_tp,fail_x,skip_ideal}, tp_flash.{fail_t,fail_p,skip_init}"]
        })
    }
    fn assumptions(&self) -> Vec<String> {
        vec![
            "systems restricted to the property's quantifier: shipped hydrocarbon PC-SAFT pairs with T_c ratio < 1.5 (no LLE), T in [0.65, 0.95] of the lower T_c; pure substances T in [0.45, 0.98] T_c".into(),
            "oracle applied only for guesses inside the stated window (0.3 T_c, factor 3 in pressure, composition guess within 0.35); outside it deviations are counted, not judged".into(),
            "thresholds: pure 1e-9, bubble/dew 1e-7, flash 1e-5 (relative) and 1e-6 (mole fractions)".into(),
        ]
    }
}


/// debugging aid: equilibrium residuals of the guided and the stand-alone result of the last
/// pure-component operation of a replay file
pub fn debug_replay(path: &str) {
    let rf: ReplayFile = serde_json::from_str(&std::fs::read_to_string(path).unwrap()).unwrap();
    let Scenario::Session(sc) = serde_json::from_value(rf.scenario).unwrap() else { return };
    let sys = &pool().pures[sc.sys];
    let resid = |v: &Vle| {
        let gv = v.vapor().molar_gibbs_energy(Contributions::Total).to_reduced();
        let gl = v.liquid().molar_gibbs_energy(Contributions::Total).to_reduced();
        let pv = v.vapor().pressure(Contributions::Total).to_reduced();
        let pl = v.liquid().pressure(Contributions::Total).to_reduced();
        ((gv - gl) / v.vapor().temperature.to_reduced(), (pv - pl) / pv)
    };
    let mut pool_v: Vec<Vle> = Vec::new();
    for op in &sc.ops {
        match op {
            SOp::PurePNpt { tf, dt } => {
                let rt = ref_pure_t(sc.sys, tf * sys.tc).unwrap();
                let m = arr1(&[1.0]) * MOL;
                let g = Vle::new_npt(&sys.eos, (rt.t + dt) * KELVIN, Pressure::from_reduced(rt.p), &m, &m).unwrap();
                let v = Vle::pure(&sys.eos, Pressure::from_reduced(rt.p), Some(&g), SolverOptions::default()).unwrap();
                println!("pure_p result T={} residuals (dg/T, dp/p) = {:?}", v.vapor().temperature, resid(&v));
                pool_v.push(v);
            }
            SOp::PureP { tf, guess: _ } => {
                let rt = ref_pure_t(sc.sys, tf * sys.tc).unwrap();
                let v = Vle::pure(&sys.eos, Pressure::from_reduced(rt.p), None, SolverOptions::default()).unwrap();
                println!("pure_p (no guess) result T={} rho_v={} rho_l={} residuals {:?}", v.vapor().temperature, v.vapor().density, v.liquid().density, resid(&v));
                pool_v.push(v);
            }
            SOp::PureT { tf, guess } => {
                let t = tf * sys.tc;
                let g = guess.and_then(|g| (!pool_v.is_empty()).then(|| pool_v[g % pool_v.len()].clone()));
                let a = Vle::pure(&sys.eos, t * KELVIN, g.as_ref(), SolverOptions::default()).unwrap();
                let b = Vle::pure(&sys.eos, t * KELVIN, None, SolverOptions::default()).unwrap();
                println!("guided     p={:e} residuals {:?}", a.vapor().pressure(Contributions::Total).to_reduced(), resid(&a));
                println!("standalone p={:e} residuals {:?}", b.vapor().pressure(Contributions::Total).to_reduced(), resid(&b));
                let c = Vle::pure(&sys.eos, t * KELVIN, Some(&a), SolverOptions::default()).unwrap();
                println!("guided again from guided: p={:e} residuals {:?}", c.vapor().pressure(Contributions::Total).to_reduced(), resid(&c));
                let o = SolverOptions::default().verbosity(feos_core::Verbosity::Iter);
                let _ = Vle::pure(&sys.eos, t * KELVIN, g.as_ref(), o);
                println!("---- stand-alone:");
                let _ = Vle::pure(&sys.eos, t * KELVIN, None, o);
                pool_v.push(a);
            }
            _ => {}
        }
    }
}
