#!/bin/bash
# Sensitivity proof: apply each mutant patch to /repo, run the matching quick check,
# expect a violation (exit 1), revert. Usage: tools/mutants.sh [glob-prefix]
# Results are appended to /verif/mutants/RESULTS.txt
cd /verif || exit 2
pat=${1:-}
if [ -n "$(git -C /repo status --porcelain --untracked-files=no)" ]; then echo "refusing: /repo has uncommitted changes"; exit 2; fi
for p in mutants/${pat}*.patch; do
  name=$(basename "$p" .patch)
  id=$(echo "$name" | cut -d_ -f1 | tr a-z A-Z)
  git -C /repo apply "/verif/$p" || { echo "$name: patch does not apply"; continue; }
  t0=$(date +%s)
  out=$(./check "$id" quick 2>&1); rc=$?
  t1=$(date +%s)
  git -C /repo checkout -- .
  line=$(echo "$out" | grep -m1 "^violation class" )
  echo "$name rc=$rc $((t1-t0))s $line" | tee -a mutants/RESULTS.txt
done
