//! feos-sim: deterministic simulation with fault injection for feos.
mod common;
mod getters;
mod systems;

#[cfg(feos_verif_shuttle)]
mod c11;
#[cfg(not(feos_verif_shuttle))]
mod c12;
#[cfg(not(feos_verif_shuttle))]
mod c14;
#[cfg(not(feos_verif_shuttle))]
mod c18;
#[cfg(not(feos_verif_shuttle))]
mod c18d;

use common::*;
use std::sync::Arc;

fn usage() -> ! {
    eprintln!("usage: feos-sim <engine> [--tier quick|thorough] [--seed N] [--runs N] [--workers N] [--max-wall S] [--digest-out FILE] [--replay FILE]");
    std::process::exit(2)
}

fn main() {
    let args: Vec<String> = std::env::args().collect();
    if args.len() < 2 {
        usage();
    }
    let engine = args[1].clone();
    let mut opts = Options {
        tier: Tier::Quick,
        seed: std::env::var("VERIF_SEED").ok().and_then(|s| s.parse().ok()).unwrap_or(20261001),
        runs: 0,
        workers: std::thread::available_parallelism().map(|n| n.get()).unwrap_or(4),
        digest_out: None,
        max_wall_s: 1e9,
        only: None,
    };
    let mut replay_file: Option<String> = None;
    let mut i = 2;
    while i < args.len() {
        let val = |i: usize| args.get(i + 1).cloned().unwrap_or_else(|| usage());
        match args[i].as_str() {
            "--tier" => {
                opts.tier = match val(i).as_str() {
                    "quick" => Tier::Quick,
                    "thorough" => Tier::Thorough,
                    _ => usage(),
                }
            }
            "--seed" => opts.seed = val(i).parse().unwrap_or_else(|_| usage()),
            "--runs" => opts.runs = val(i).parse().unwrap_or_else(|_| usage()),
            "--workers" => opts.workers = val(i).parse().unwrap_or_else(|_| usage()),
            "--max-wall" => opts.max_wall_s = val(i).parse().unwrap_or_else(|_| usage()),
            "--digest-out" => opts.digest_out = Some(val(i)),
            "--replay" => replay_file = Some(val(i)),
            "--only" => opts.only = Some(val(i).parse().unwrap_or_else(|_| usage())),
            _ => usage(),
        }
        i += 2;
    }
    install_quiet_panic_hook();
    let code = dispatch(&engine, &opts, replay_file.as_deref());
    std::process::exit(code)
}

fn go<E: Engine>(e: E, default_runs: (u64, u64), opts: &Options, replay_file: Option<&str>) -> i32 {
    let e = Arc::new(e);
    if let Some(p) = replay_file {
        return replay(e, p);
    }
    let mut o = opts.clone();
    if o.runs == 0 {
        o.runs = match o.tier {
            Tier::Quick => default_runs.0,
            Tier::Thorough => default_runs.1,
        };
    }
    run_engine(e, &o)
}

#[cfg(feos_verif_shuttle)]
fn dispatch(engine: &str, opts: &Options, replay_file: Option<&str>) -> i32 {
    match engine {
        "c11-state" => go(c11::C11 { mode: c11::Mode::State }, (6000, 400_000), opts, replay_file),
        "c11-parpure" => go(c11::C11 { mode: c11::Mode::ParPure }, (300, 20_000), opts, replay_file),
        "c11-sweep" => go(c11::C11 { mode: c11::Mode::Sweep }, (0, 0), opts, replay_file),
        _ => {
            eprintln!("harness error: engine {engine} is not part of the sched build");
            2
        }
    }
}

#[cfg(not(feos_verif_shuttle))]
fn dispatch(engine: &str, opts: &Options, replay_file: Option<&str>) -> i32 {
    match engine {
        "c14-loader" => go(c14::C14 { faults: false }, (3000, 300_000), opts, replay_file),
        "c14-loader-faults" => go(c14::C14 { faults: true }, (3000, 300_000), opts, replay_file),
        "c14-debug-pcsaft" => {
            c14::debug_pcsaft(replay_file.expect("--replay"));
            0
        }
        "c12-debug" => {
            c12::debug_replay(replay_file.expect("--replay"));
            0
        }
        "c18-uniform" => {
            c18::debug_uniform();
            0
        }
        "c18-debug" => {
            c18::debug_replay(replay_file.expect("--replay"));
            0
        }
        "c18-profile" => go(c18::C18, (240, 20_000), opts, replay_file),
        "c18-driver" => go(c18d::C18Driver, (96, 6000), opts, replay_file),
        "c12-session" => go(c12::C12 { driver: false, no_faults: false }, (10_000, 600_000), opts, replay_file),
        "c12-session-nofault" => go(c12::C12 { driver: false, no_faults: true }, (8000, 300_000), opts, replay_file),
        "c12-driver" => go(c12::C12 { driver: true, no_faults: false }, (1500, 100_000), opts, replay_file),
        "c12-driver-nofault" => go(c12::C12 { driver: true, no_faults: true }, (500, 40_000), opts, replay_file),
        _ => {
            eprintln!("harness error: engine {engine} is not part of the sim build");
            2
        }
    }
}
