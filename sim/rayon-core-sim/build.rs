fn main() {}
