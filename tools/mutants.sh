#!/bin/bash
# Sensitivity proof: apply each mutant patch to a scratch copy of /repo, run the matching quick
# check on the copy, expect a violation (exit 1). Usage: tools/mutants.sh [glob-prefix]
# Results are appended to /verif/mutants/RESULTS.txt. /repo itself is never modified.
cd /verif || exit 2
pat=${1:-}
. /verif/tools/scratch.sh
scratch_setup
for p in mutants/${pat}*.patch; do
  name=$(basename "$p" .patch)
  id=$(echo "$name" | cut -d_ -f1 | tr a-z A-Z)
  scratch_reset
  (cd "$SCRATCH_REPO" && git apply "/verif/$p") || { echo "$name: patch does not apply"; continue; }
  t0=$(date +%s)
  out=$(./check "$id" quick 2>&1); rc=$?
  t1=$(date +%s)
  line=$(echo "$out" | grep -m1 "^violation class" )
  echo "$name rc=$rc $((t1-t0))s $line" | tee -a mutants/RESULTS.txt
done
