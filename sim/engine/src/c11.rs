//! C11 — results do not depend on evaluation history or on the thread schedule.
//!
//! Built only in the `sched` configuration (`--cfg feos_verif_shuttle`): the cache
//! mutex of `State` is shuttle's, so every lock/unlock, spawn and join is a
//! scheduling point decided by shuttle's seeded scheduler.
use crate::common::*;
use crate::getters::{contrib_name, getters, Getter, CONTRIBS};
use crate::systems::{c11_systems, Eos, SystemDef};
use feos_core::{Derivative, PhaseDiagram, ReferenceSystem, SolverOptions, State};
use ndarray::Array1;
use quantity::{Moles, Temperature, KELVIN, MOL};
use serde::{Deserialize, Serialize};
use serde_json::{json, Value};
use shuttle::scheduler::{PctScheduler, RandomScheduler};
use shuttle::{Config, FailurePersistence, Runner};
use std::collections::{BTreeMap, HashMap};
use std::panic::{catch_unwind, AssertUnwindSafe};
use std::sync::{Arc, Mutex as StdMutex, OnceLock};
use typenum::P3;

const TOL: f64 = 1e-9;

#[derive(Serialize, Deserialize, Clone, Debug, PartialEq)]
pub enum Op {
    Get { g: usize, c: usize },
    Raw { kind: u8, d1: i32, d2: i32 },
    Clone,
    Shared,
    Send { to: usize },
    Recv,
    UpdateT,
    Yield,
}

#[derive(Serialize, Deserialize, Clone, Debug)]
pub struct StateScenario {
    pub system: usize,
    pub dense: bool,
    pub threads: Vec<Vec<Op>>,
    pub pct_depth: Option<usize>,
    pub schedule_seed: u64,
}

#[derive(Serialize, Deserialize, Clone, Debug)]
pub struct ParPureScenario {
    pub model: usize,
    pub npoints: usize,
    pub chunksize: usize,
    pub pool: usize,
    pub steal_permille: u32,
    pub concurrent_permille: u32,
    pub rayon_seed: u64,
    pub tmin_frac: f64,
    pub pct_depth: Option<usize>,
    pub schedule_seed: u64,
}

#[derive(Serialize, Deserialize, Clone, Debug)]
pub enum Scenario {
    State(StateScenario),
    ParPure(ParPureScenario),
    /// exhaustive short histories over the cache keys of one system (thorough only)
    Sweep { system: usize, dense: bool, first: usize },
}

fn deriv(d: i32) -> Derivative {
    match d {
        -2 => Derivative::DV,
        -1 => Derivative::DT,
        i => Derivative::DN(i as usize),
    }
}

fn deriv_code(d: Derivative) -> i32 {
    match d {
        Derivative::DV => -2,
        Derivative::DT => -1,
        Derivative::DN(i) => i as i32,
    }
}

/// All raw cache requests of a system with `n` components: (kind, d1, d2).
pub fn raw_requests(n: usize) -> Vec<(u8, i32, i32)> {
    let ds: Vec<i32> = (-2..n as i32).collect();
    let mut v = vec![(0u8, -2, -2)];
    for &d in &ds {
        v.push((1, d, d));
    }
    for &d in &ds {
        v.push((2, d, d));
    }
    for &a in &ds {
        for &b in &ds {
            v.push((3, a, b));
        }
    }
    for &d in &ds {
        v.push((4, d, d));
    }
    v
}

/// canonical stored key of a raw request
fn stored_key(kind: u8, d1: i32, d2: i32) -> (u8, i32, i32) {
    match kind {
        0 => (0, -2, -2),
        1 => (1, d1, d1),
        2 => (3, d1, d1),
        3 => (3, d1.min(d2), d1.max(d2)),
        _ => (4, d1, d1),
    }
}

pub struct Refs {
    /// getter × contribution → reference output
    getter: Vec<[Option<Vec<f64>>; 3]>,
    /// stored key → reference value
    keys: BTreeMap<(u8, i32, i32), f64>,
}

struct Pool {
    systems: Vec<SystemDef>,
    getters: Vec<Getter>,
    refs: StdMutex<HashMap<(usize, bool, usize), Arc<Refs>>>,
    pure_models: Vec<(&'static str, Arc<Eos>)>,
}

fn pool() -> &'static Pool {
    static POOL: OnceLock<Pool> = OnceLock::new();
    POOL.get_or_init(|| with_fixed_entropy(|| {
        let systems = c11_systems();
        let mut pure_models = Vec::new();
        for (i, name) in [(1usize, "pcsaft_propane"), (6, "saftvrmie_ethane"), (0, "pr_propane"), (8, "pets_a")] {
            use feos_core::Components;
            pure_models.push((name, Arc::new(systems[i].eos.subset(&[0]))));
        }
        Pool {
            systems,
            getters: getters(),
            refs: StdMutex::new(HashMap::new()),
            pure_models,
        }
    }))
}

fn make_state(sys: &SystemDef, dense: bool, tidx: usize) -> State<Eos> {
    use feos_core::Residual;
    let moles = Array1::from_vec(sys.moles.clone()) * MOL;
    let maxrho = sys.eos.max_density(Some(&moles)).expect("max density");
    let rho = if dense { 0.55 * maxrho } else { 0.004 * maxrho };
    let volume = moles.sum() / rho;
    State::new_nvt(&sys.eos, sys.t[tidx] * KELVIN, volume, &moles).expect("state")
}

fn applicable(sys: &SystemDef, g: &Getter) -> bool {
    (!g.entropy_scaling || sys.entropy_scaling) && sys.ncomp >= g.min_comp
}

fn shuttle_config() -> Config {
    let mut cfg = Config::new();
    cfg.stack_size = 4 << 20;
    cfg.failure_persistence = FailurePersistence::None;
    cfg.silence_warnings = true;
    cfg
}

/// Run `f` once inside a single-threaded shuttle execution (needed for anything that
/// touches a `State` in this build).
fn in_shuttle<T: Send + 'static>(f: impl Fn() -> T + Send + Sync + 'static) -> T {
    let out: Arc<StdMutex<Option<T>>> = Arc::new(StdMutex::new(None));
    let o2 = out.clone();
    Runner::new(RandomScheduler::new_from_seed(1, 1), shuttle_config()).run(move || {
        *o2.lock().unwrap() = Some(f());
    });
    let r = out.lock().unwrap().take().expect("shuttle run produced no value");
    r
}

fn ensure_refs(system: usize, dense: bool, tidx: usize) -> Arc<Refs> {
    let p = pool();
    if let Some(r) = p.refs.lock().unwrap().get(&(system, dense, tidx)) {
        return r.clone();
    }
    let refs = in_shuttle(move || {
        let p = pool();
        let sys = &p.systems[system];
        let mut getter = Vec::new();
        for g in &p.getters {
            let mut row: [Option<Vec<f64>>; 3] = [None, None, None];
            if applicable(sys, g) {
                for (ci, c) in CONTRIBS.iter().enumerate() {
                    if !g.contrib && ci != 2 {
                        continue;
                    }
                    // reference = the first and only evaluation on a fresh state
                    let s = make_state(sys, dense, tidx);
                    row[ci] = Some((g.f)(&s, *c));
                }
            }
            getter.push(row);
        }
        let mut keys = BTreeMap::new();
        for (kind, d1, d2) in raw_requests(sys.ncomp) {
            let k = stored_key(kind, d1, d2);
            // canonical producer: direct request of lowest cost (kind 2 for diagonal seconds)
            if kind == 3 && d1 == d2 {
                continue;
            }
            if kind == 3 && d1 > d2 {
                continue;
            }
            let s = make_state(sys, dense, tidx);
            let x = s.verif_derivative(kind, deriv(d1), deriv(d2));
            keys.insert(k, x);
        }
        Refs { getter, keys }
    });
    let refs = Arc::new(refs);
    p.refs
        .lock()
        .unwrap()
        .insert((system, dense, tidx), refs.clone());
    refs
}

// ------------------------------------------------------------------ run log

#[derive(Default)]
struct Log {
    digest: Digest,
    events: u64,
    out: RunOutcome,
    worst_getter: f64,
    worst_key: f64,
}

fn vec_dev(x: &[f64], r: &[f64], floor: f64) -> f64 {
    if x.len() != r.len() {
        return f64::INFINITY;
    }
    let scale = r.iter().fold(0.0f64, |a, b| if b.is_finite() { a.max(b.abs()) } else { a });
    let mut worst = 0.0f64;
    for (a, b) in x.iter().zip(r) {
        let d = deviation(*a, *b, floor * scale + 1e-300);
        if d > worst || d.is_nan() {
            worst = d;
        }
    }
    worst
}

struct Handle {
    state: Arc<State<Eos>>,
    tidx: usize,
    kind: u8, // 0 shared, 1 clone, 2 received, 3 updated
}

fn check_cache(log: &StdMutex<Log>, h: &Handle, refs: &[Arc<Refs>; 2], thread: usize, opi: usize) {
    let snap = h.state.verif_cache_snapshot();
    let r = &refs[h.tidx];
    let mut l = log.lock().unwrap();
    let ares = r.keys.get(&(0, -2, -2)).copied().unwrap_or(1.0).abs();
    for (kind, d1, d2, x) in snap {
        let key = (kind, deriv_code(d1), deriv_code(d2));
        match r.keys.get(&key) {
            None => {
                l.out.violate(
                    "cache-unknown-key",
                    "cache",
                    format!("thread {thread} op {opi}: cache holds non-canonical key {key:?} = {x:e}"),
                );
            }
            Some(&rv) => {
                let d = deviation(x, rv, 1e-12 * ares + 1e-300);
                if d > l.worst_key {
                    l.worst_key = d;
                }
                if !(d <= TOL) {
                    l.out.violate(
                        "cache-entry-mismatch",
                        "cache",
                        format!(
                            "thread {thread} op {opi}: cache entry {key:?} = {x:e}, reference {rv:e} (dev {d:e})"
                        ),
                    );
                }
            }
        }
    }
}

fn run_thread(
    sc: Arc<StateScenario>,
    me: usize,
    shared: Arc<State<Eos>>,
    mailboxes: Arc<Vec<shuttle::sync::Mutex<Vec<(Arc<State<Eos>>, usize)>>>>,
    refs: Arc<[Arc<Refs>; 2]>,
    log: Arc<StdMutex<Log>>,
) {
    let p = pool();
    let sys = &p.systems[sc.system];
    let mut h = Handle {
        state: shared.clone(),
        tidx: 0,
        kind: 0,
    };
    for (opi, op) in sc.threads[me].iter().enumerate() {
        let mut result: Vec<f64> = Vec::new();
        let mut tag = 0u64;
        match op {
            Op::Get { g, c } => {
                let getter = &p.getters[*g];
                let before = h.state.verif_cache_counters();
                let out = (getter.f)(&h.state, CONTRIBS[*c]);
                let after = h.state.verif_cache_counters();
                let r = refs[h.tidx].getter[*g][*c].as_ref().expect("reference for getter");
                // elements far below the scale of a result are cancellation noise; with a trace component
                // whole rows of the composition derivatives are (measured 2e-9 of the scale on this tree)
                let trace = p.systems[sc.system].moles.iter().any(|m| *m < 1e-6);
                let d = vec_dev(&out, r, if trace { 1e-3 } else { 1e-6 });
                {
                    let mut l = log.lock().unwrap();
                    if d > l.worst_getter {
                        l.worst_getter = d;
                    }
                    let hit = (after.0 > before.0) as u64;
                    let miss = (after.1 > before.1) as u64;
                    let flow = mix((*g as u64) << 8 | (h.kind as u64) << 4 | hit << 1 | miss);
                    l.out.distinct.push(flow);
                    l.out.count("op.get", 1);
                    if !(d <= TOL) {
                        l.out.violate(
                            "getter-mismatch",
                            "getter",
                            format!(
                                "thread {me} op {opi}: {}({}) on handle kind {} returned {:?}, reference {:?} (dev {d:e})",
                                getter.name, contrib_name(*c), h.kind, out, r
                            ),
                        );
                    }
                }
                result = out;
                tag = 1;
            }
            Op::Raw { kind, d1, d2 } => {
                let before = h.state.verif_cache_counters();
                let x = h.state.verif_derivative(*kind, deriv(*d1), deriv(*d2));
                let after = h.state.verif_cache_counters();
                let key = stored_key(*kind, *d1, *d2);
                let rv = refs[h.tidx].keys[&key];
                let ares = refs[h.tidx].keys[&(0, -2, -2)].abs();
                let d = deviation(x, rv, 1e-12 * ares + 1e-300);
                {
                    let mut l = log.lock().unwrap();
                    if d > l.worst_key {
                        l.worst_key = d;
                    }
                    let hit = (after.0 > before.0) as u64;
                    let dclass = |d: i32| (d + 2).min(2) as u64;
                    let same = (d1 == d2) as u64;
                    let flow = mix(
                        0xF10 ^ ((*kind as u64) << 12 | dclass(*d1) << 8 | dclass(*d2) << 6 | same << 5 | (h.kind as u64) << 2 | hit),
                    );
                    l.out.distinct.push(flow);
                    l.out.count("op.raw", 1);
                    if hit == 1 {
                        l.out.count("probe.raw_served_from_cache", 1);
                    }
                    if !(d <= TOL) {
                        l.out.violate(
                            "raw-mismatch",
                            "raw",
                            format!(
                                "thread {me} op {opi}: derivative kind {kind} ({d1},{d2}) on handle kind {} returned {x:e}, reference {rv:e} (dev {d:e}, served from cache: {})",
                                h.kind, hit == 1
                            ),
                        );
                    }
                }
                result.push(x);
                tag = 2;
            }
            Op::Clone => {
                h = Handle {
                    state: Arc::new((*h.state).clone()),
                    tidx: h.tidx,
                    kind: 1,
                };
                log.lock().unwrap().out.count("op.clone", 1);
                tag = 3;
            }
            Op::Shared => {
                h = Handle {
                    state: shared.clone(),
                    tidx: 0,
                    kind: 0,
                };
                tag = 4;
            }
            Op::Send { to } => {
                let c = Arc::new((*h.state).clone());
                mailboxes[*to % mailboxes.len()].lock().unwrap().push((c, h.tidx));
                log.lock().unwrap().out.count("op.send", 1);
                tag = 5;
            }
            Op::Recv => {
                let got = mailboxes[me].lock().unwrap().pop();
                if let Some((s, tidx)) = got {
                    h = Handle {
                        state: s,
                        tidx,
                        kind: 2,
                    };
                    log.lock().unwrap().out.count("probe.clone_received_from_other_thread", 1);
                }
                tag = 6;
            }
            Op::UpdateT => {
                let tnew = 1 - h.tidx;
                let s = h
                    .state
                    .update_temperature(sys.t[tnew] * KELVIN)
                    .expect("update_temperature");
                h = Handle {
                    state: Arc::new(s),
                    tidx: tnew,
                    kind: 3,
                };
                log.lock().unwrap().out.count("op.update_temperature", 1);
                tag = 7;
            }
            Op::Yield => {
                shuttle::thread::sleep(std::time::Duration::from_secs(0));
                tag = 8;
            }
        }
        // invariant after every operation: every cache entry equals its reference
        check_cache(&log, &h, &refs, me, opi);
        let mut l = log.lock().unwrap();
        l.events += 1;
        let ev = l.events;
        l.out.note(format!("#{ev} thread {me} op {opi} {op:?} -> {:?}", result.first()));
        l.digest.u64(ev);
        l.digest.u64(me as u64);
        l.digest.u64(opi as u64);
        l.digest.u64(tag);
        for x in &result {
            l.digest.f64(*x);
        }
    }
}

fn run_in_shuttle(
    pct_depth: Option<usize>,
    seed: u64,
    f: impl Fn() + Send + Sync + 'static,
) -> Result<(), String> {
    let r = catch_unwind(AssertUnwindSafe(|| match pct_depth {
        Some(d) => {
            Runner::new(PctScheduler::new_from_seed(seed, d, 1), shuttle_config()).run(f);
        }
        None => {
            Runner::new(RandomScheduler::new_from_seed(seed, 1), shuttle_config()).run(f);
        }
    }));
    r.map_err(|_| take_last_panic().unwrap_or_else(|| "panic".into()))
}

fn exec_state(sc: &StateScenario) -> RunOutcome {
    let refs = Arc::new([
        ensure_refs(sc.system, sc.dense, 0),
        ensure_refs(sc.system, sc.dense, 1),
    ]);
    let log = Arc::new(StdMutex::new(Log::default()));
    let sc = Arc::new(sc.clone());
    let (log2, sc2) = (log.clone(), sc.clone());
    let steps = Arc::new(StdMutex::new(0u64));
    let steps2 = steps.clone();
    let res = run_in_shuttle(sc.pct_depth, sc.schedule_seed, move || {
        let p = pool();
        let shared = Arc::new(make_state(&p.systems[sc2.system], sc2.dense, 0));
        let n = sc2.threads.len();
        let mailboxes = Arc::new((0..n).map(|_| shuttle::sync::Mutex::new(Vec::new())).collect::<Vec<_>>());
        if n == 1 {
            run_thread(sc2.clone(), 0, shared, mailboxes, refs.clone(), log2.clone());
        } else {
            let hs: Vec<_> = (0..n)
                .map(|i| {
                    let (sc3, sh, mb, rf, lg) =
                        (sc2.clone(), shared.clone(), mailboxes.clone(), refs.clone(), log2.clone());
                    shuttle::thread::spawn(move || run_thread(sc3, i, sh, mb, rf, lg))
                })
                .collect();
            for h in hs {
                h.join().expect("simulated thread panicked");
            }
        }
        *steps2.lock().unwrap() = shuttle::current::context_switches() as u64;
    });
    let mut l = std::mem::take(&mut *log.lock().unwrap());
    let mut out = std::mem::take(&mut l.out);
    if let Err(msg) = res {
        let class = if msg.contains("deadlock") { "deadlock" } else { "panic" };
        out.violate(class, class, format!("simulated execution aborted: {msg}"));
    }
    out.digest = l.digest.0;
    out.steps = *steps.lock().unwrap() + l.events;
    out.count("sim.context_switches", *steps.lock().unwrap());
    out.count("sim.threads", sc.threads.len() as u64);
    out.count(
        if sc.pct_depth.is_some() { "sched.pct" } else { "sched.random" },
        1,
    );
    out.max("getter_dev", l.worst_getter);
    out.max("cache_key_dev", l.worst_key);
    let nops: usize = sc.threads.iter().map(|t| t.len()).sum();
    out.nontrivial = nops >= 2;
    out
}

// ------------------------------------------------------------------ par_pure

fn exec_par_pure(sc: &ParPureScenario) -> RunOutcome {
    let out = Arc::new(StdMutex::new(RunOutcome::default()));
    let o2 = out.clone();
    let sc = Arc::new(sc.clone());
    let sc2 = sc.clone();
    let res = run_in_shuttle(sc.pct_depth, sc.schedule_seed, move || {
        let p = pool();
        let (_, eos) = &p.pure_models[sc2.model % p.pure_models.len()];
        let mut o = RunOutcome::default();
        let cp = match State::critical_point(eos, None, None, SolverOptions::default()) {
            Ok(cp) => cp,
            Err(e) => {
                o.violate("harness", "harness", format!("critical point failed: {e}"));
                *o2.lock().unwrap() = o;
                return;
            }
        };
        let tmin = cp.temperature * sc2.tmin_frac;
        let seq = PhaseDiagram::pure(eos, tmin, sc2.npoints, None, SolverOptions::default());
        rayon_core::sim::configure(sc2.rayon_seed, sc2.steal_permille, sc2.concurrent_permille);
        let tp = rayon::ThreadPoolBuilder::new()
            .num_threads(sc2.pool)
            .build()
            .expect("pool");
        let par = PhaseDiagram::par_pure(
            eos,
            tmin,
            sc2.npoints,
            sc2.chunksize,
            tp,
            None,
            SolverOptions::default(),
        );
        let (stats, dlog) = rayon_core::sim::take();
        o.count("rayon.joins", stats.joins);
        o.count("rayon.inline", stats.inline);
        o.count("fault.job_stolen_runs_before", stats.stolen_before);
        o.count("fault.job_stolen_runs_concurrently", stats.stolen_concurrent);
        o.count("rayon.max_live_stolen", stats.max_live_stolen);
        let mut dg = Digest::default();
        for d in &dlog {
            dg.u64(*d as u64);
        }
        o.distinct.push(mix(dg.0 ^ (sc2.npoints as u64) << 32 ^ sc2.chunksize as u64));
        match (seq, par) {
            (Ok(seq), Ok(par)) => {
                o.count("par_pure.points", par.states.len() as u64);
                if seq.states.len() != par.states.len() {
                    o.violate(
                        "par-length",
                        "par_pure",
                        format!("sequential returned {} states, parallel {}", seq.states.len(), par.states.len()),
                    );
                }
                let mut worst = 0.0f64;
                let mut last_t = 0.0;
                for (i, (a, b)) in seq.states.iter().zip(par.states.iter()).enumerate() {
                    let fa = [
                        a.vapor().temperature.to_reduced(),
                        a.vapor().pressure(feos_core::Contributions::Total).to_reduced(),
                        a.vapor().density.to_reduced(),
                        a.liquid().density.to_reduced(),
                    ];
                    let fb = [
                        b.vapor().temperature.to_reduced(),
                        b.vapor().pressure(feos_core::Contributions::Total).to_reduced(),
                        b.vapor().density.to_reduced(),
                        b.liquid().density.to_reduced(),
                    ];
                    for x in fb {
                        dg.f64(x);
                    }
                    for (x, r) in fb.iter().zip(fa.iter()) {
                        let d = deviation(*x, *r, 1e-300);
                        worst = worst.max(d);
                        if !(d <= 1e-9) {
                            o.violate(
                                "par-state-mismatch",
                                "par_pure",
                                format!("state {i}: parallel {fb:?} vs sequential {fa:?}"),
                            );
                            break;
                        }
                    }
                    if i + 1 < par.states.len() && !(fb[0] > last_t) {
                        o.violate(
                            "par-order",
                            "par_pure",
                            format!("state {i}: temperature {} not above previous {}", fb[0], last_t),
                        );
                    }
                    last_t = fb[0];
                }
                if let Some(last) = par.states.last() {
                    let d = deviation(last.vapor().temperature.to_reduced(), cp.temperature.to_reduced(), 1e-300);
                    if !(d <= 1e-9) || last.vapor().density != last.liquid().density {
                        o.violate(
                            "par-critical-last",
                            "par_pure",
                            "last state of the parallel diagram is not the critical point".to_string(),
                        );
                    }
                }
                o.max("par_pure_dev", worst);
            }
            (Ok(_), Err(e)) => o.violate("par-error", "par_pure", format!("parallel failed where sequential succeeded: {e}")),
            (Err(_), Ok(_)) => o.violate("par-error", "par_pure", "parallel succeeded where sequential failed".into()),
            (Err(_), Err(_)) => {}
        }
        o.digest = dg.0;
        o.steps = stats.joins + shuttle::current::context_switches() as u64;
        o.nontrivial = stats.joins >= 1;
        *o2.lock().unwrap() = o;
    });
    let mut o = std::mem::take(&mut *out.lock().unwrap());
    if let Err(msg) = res {
        let class = if msg.contains("deadlock") { "deadlock" } else { "panic" };
        o.violate(class, class, format!("simulated execution aborted: {msg}"));
    }
    o.count("par_pure.runs", 1);
    o
}

// ------------------------------------------------------------------ exhaustive short histories

fn exec_sweep(system: usize, dense: bool, first: usize) -> RunOutcome {
    let refs = ensure_refs(system, dense, 0);
    in_shuttle(move || {
        let p = pool();
        let sys = &p.systems[system];
        let reqs = raw_requests(sys.ncomp);
        let mut o = RunOutcome::default();
        let mut dg = Digest::default();
        let ares = refs.keys[&(0, -2, -2)].abs();
        let a = reqs[first % reqs.len()];
        let mut worst = 0.0f64;
        for b in &reqs {
            for c in &reqs {
                let s = make_state(sys, dense, 0);
                for (pos, r) in [a, *b, *c].iter().enumerate() {
                    let x = s.verif_derivative(r.0, deriv(r.1), deriv(r.2));
                    dg.f64(x);
                    let rv = refs.keys[&stored_key(r.0, r.1, r.2)];
                    let d = deviation(x, rv, 1e-12 * ares + 1e-300);
                    worst = worst.max(d);
                    if !(d <= TOL) && o.violations.is_empty() {
                        o.violate(
                            "raw-mismatch",
                            "raw",
                            format!("history {:?},{:?},{:?}: position {pos} returned {x:e}, reference {rv:e}", a, b, c),
                        );
                    }
                }
                o.steps += 3;
            }
        }
        o.count("sweep.histories_len3", (reqs.len() * reqs.len()) as u64);
        o.max("cache_key_dev", worst);
        o.distinct.push(mix(0x5EE9 ^ (system as u64) << 16 ^ first as u64));
        o.digest = dg.0;
        o.nontrivial = true;
        o
    })
}

// ------------------------------------------------------------------ engine

pub struct C11 {
    pub mode: Mode,
}

#[derive(Clone, Copy, PartialEq)]
pub enum Mode {
    State,
    ParPure,
    Sweep,
}

fn gen_ops(rng: &mut Rng, sys: &SystemDef, nthreads: usize, maxops: usize, getters: &[Getter]) -> Vec<Op> {
    let n = rng.range(1, maxops);
    let reqs = raw_requests(sys.ncomp);
    let avail: Vec<usize> = getters
        .iter()
        .enumerate()
        .filter(|(_, g)| applicable(sys, g))
        .map(|(i, _)| i)
        .collect();
    // swarm: per thread a random operation mix
    let w_get = rng.range(1, 6);
    let w_raw = rng.range(0, 6);
    let w_clone = rng.range(0, 2);
    let w_msg = if nthreads > 1 { rng.range(0, 2) } else { 0 };
    let w_upd = rng.range(0, 1);
    let total = w_get + w_raw + w_clone * 2 + w_msg * 2 + w_upd + 1;
    (0..n)
        .map(|_| {
            let mut r = rng.below(total);
            if r < w_get {
                let g = *rng.pick(&avail);
                let c = if getters[g].contrib { rng.below(3) } else { 2 };
                return Op::Get { g, c };
            }
            r -= w_get;
            if r < w_raw {
                let (kind, d1, d2) = *rng.pick(&reqs);
                return Op::Raw { kind, d1, d2 };
            }
            r -= w_raw;
            if r < w_clone {
                return Op::Clone;
            }
            r -= w_clone;
            if r < w_clone {
                return Op::Shared;
            }
            r -= w_clone;
            if r < w_msg {
                return Op::Send { to: rng.below(nthreads) };
            }
            r -= w_msg;
            if r < w_msg {
                return Op::Recv;
            }
            r -= w_msg;
            if r < w_upd {
                return Op::UpdateT;
            }
            Op::Yield
        })
        .collect()
}

impl Engine for C11 {
    type Scenario = Scenario;
    fn property(&self) -> &'static str {
        "C11"
    }
    fn name(&self) -> &'static str {
        match self.mode {
            Mode::State => "c11-state",
            Mode::ParPure => "c11-parpure",
            Mode::Sweep => "c11-sweep",
        }
    }
    fn generate(&self, seed: u64, tier: Tier) -> Scenario {
        let p = pool();
        let mut rng = Rng::new(seed);
        match self.mode {
            Mode::State => {
                let system = rng.below(p.systems.len());
                let sys = &p.systems[system];
                let (maxt, maxops) = match tier {
                    Tier::Quick => (4, 16),
                    Tier::Thorough => (16, 50),
                };
                let nthreads = if rng.chance(0.2) { 1 } else { rng.range(2, maxt) };
                let maxops = if nthreads > 6 { maxops.min(20) } else { maxops };
                let threads = (0..nthreads)
                    .map(|_| gen_ops(&mut rng, sys, nthreads, maxops, &p.getters))
                    .collect();
                Scenario::State(StateScenario {
                    system,
                    dense: rng.chance(0.5),
                    threads,
                    pct_depth: if rng.chance(0.4) { Some(rng.range(1, 4)) } else { None },
                    schedule_seed: rng.next(),
                })
            }
            Mode::ParPure => {
                let maxn = match tier {
                    Tier::Quick => 60,
                    Tier::Thorough => 200,
                };
                let npoints = rng.range(3, maxn);
                let chunksize = if rng.chance(0.3) {
                    rng.range(1, 3)
                } else {
                    rng.range(1, npoints + 3)
                };
                Scenario::ParPure(ParPureScenario {
                    model: rng.below(p.pure_models.len()),
                    npoints,
                    chunksize,
                    pool: rng.range(1, 16),
                    steal_permille: *rng.pick(&[0u32, 100, 300, 500, 800, 1000]),
                    concurrent_permille: *rng.pick(&[0u32, 300, 700, 1000]),
                    rayon_seed: rng.next(),
                    tmin_frac: rng.uniform(0.5, 0.9),
                    pct_depth: if rng.chance(0.3) { Some(rng.range(1, 3)) } else { None },
                    schedule_seed: rng.next(),
                })
            }
            Mode::Sweep => {
                // enumerate, not sample: run index = (system, dense, first request)
                let i = (seed % 1_000_000) as usize;
                let _ = i;
                unreachable!("sweep scenarios are enumerated by the driver")
            }
        }
    }
    fn execute(&self, sc: &Scenario) -> RunOutcome {
        match sc {
            Scenario::State(s) => exec_state(s),
            Scenario::ParPure(s) => exec_par_pure(s),
            Scenario::Sweep { system, dense, first } => exec_sweep(*system, *dense, *first),
        }
    }
    fn shrink(&self, sc: &Scenario) -> Vec<Scenario> {
        let mut v = Vec::new();
        match sc {
            Scenario::State(s) => {
                if s.threads.len() > 1 {
                    for i in 0..s.threads.len() {
                        let mut t = s.clone();
                        t.threads.remove(i);
                        for th in t.threads.iter_mut() {
                            for op in th.iter_mut() {
                                if let Op::Send { to } = op {
                                    *to %= s.threads.len() - 1;
                                }
                            }
                        }
                        v.push(Scenario::State(t));
                    }
                }
                for i in 0..s.threads.len() {
                    let n = s.threads[i].len();
                    if n > 1 {
                        let mut t = s.clone();
                        t.threads[i].truncate(n / 2);
                        v.push(Scenario::State(t));
                        let mut t = s.clone();
                        t.threads[i].drain(..n / 2);
                        v.push(Scenario::State(t));
                    }
                }
                for i in 0..s.threads.len() {
                    for j in 0..s.threads[i].len() {
                        let mut t = s.clone();
                        t.threads[i].remove(j);
                        if t.threads.iter().all(|x| x.is_empty()) {
                            continue;
                        }
                        v.push(Scenario::State(t));
                    }
                }
                if s.pct_depth.is_some() {
                    let mut t = s.clone();
                    t.pct_depth = None;
                    v.push(Scenario::State(t));
                }
            }
            Scenario::ParPure(s) => {
                if s.npoints > 3 {
                    for n in [3, s.npoints / 2, s.npoints - 1] {
                        if n >= 3 && n < s.npoints {
                            let mut t = s.clone();
                            t.npoints = n;
                            t.chunksize = t.chunksize.min(n + 3);
                            v.push(Scenario::ParPure(t));
                        }
                    }
                }
                if s.pool > 1 {
                    let mut t = s.clone();
                    t.pool = 1;
                    v.push(Scenario::ParPure(t));
                    let mut t = s.clone();
                    t.pool = 2;
                    v.push(Scenario::ParPure(t));
                }
                if s.concurrent_permille > 0 {
                    let mut t = s.clone();
                    t.concurrent_permille = 0;
                    v.push(Scenario::ParPure(t));
                }
                if s.steal_permille > 0 {
                    let mut t = s.clone();
                    t.steal_permille = 0;
                    v.push(Scenario::ParPure(t));
                }
                if s.chunksize > 1 {
                    let mut t = s.clone();
                    t.chunksize = 1;
                    v.push(Scenario::ParPure(t));
                    let mut t = s.clone();
                    t.chunksize = s.chunksize / 2;
                    v.push(Scenario::ParPure(t));
                }
                if s.model != 0 {
                    let mut t = s.clone();
                    t.model = 0;
                    v.push(Scenario::ParPure(t));
                }
            }
            Scenario::Sweep { .. } => {}
        }
        v
    }
    fn rule(&self) -> String {
        match self.mode {
            Mode::State => "one case = (system, state point, per-thread operation lists over ~75 getters x contributions, raw cache requests, clone / send-clone / receive / update_temperature, scheduler kind, schedule seed) executed under shuttle; distinct = distinct scenario JSON; non-trivial = at least two operations in total. distinct_reached counts distinct cache flows (operation kind, key class, handle kind {shared, clone, received, updated}, served-from-cache / computed).".into(),
            Mode::ParPure => "one case = (pure model, npoints, chunksize, simulated pool size, steal and concurrency rates, rayon seed, scheduler, schedule seed): PhaseDiagram::par_pure on the real rayon pipeline over the deterministic rayon-core stand-in vs PhaseDiagram::pure; distinct = distinct scenario JSON; non-trivial = at least one join executed. distinct_reached counts distinct (steal decision log, npoints, chunksize).".into(),
            Mode::Sweep => "enumeration of every history of three raw cache requests (first request fixed per case, all pairs of second and third) on a fresh state; non-trivial = always.".into(),
        }
    }
    fn enumerate(&self, tier: Tier) -> Option<Vec<Scenario>> {
        (self.mode == Mode::Sweep).then(|| sweep_scenarios(tier))
    }
    fn components(&self) -> Value {
        json!({
            "real": ["feos-core State/Cache/getters", "all feos models in the pool (PR, PC-SAFT, gc-PC-SAFT, SAFT-VR Mie, SAFT-VRQ Mie, PeTS, uv-theory, ePC-SAFT, PC-SAFT functional)", "num-dual", "ndarray", "rayon (iterators, plumbing, collect)", "quantity"],
            "stub": ["std::sync::Mutex in State -> shuttle::sync::Mutex (cfg feos_verif_shuttle)", "rayon-core -> deterministic stand-in (/verif/sim/rayon-core-sim)", "OS threads -> shuttle threads", "getrandom(2) -> seeded"],
            "not_exercised": ["Python bindings", "real rayon-core work-stealing deques"],
            "legend": {
                "Get.g": pool().getters.iter().map(|g| g.name).collect::<Vec<_>>(),
                "Get.c": ["ideal gas", "residual", "total"],
                "Raw.kind": ["Zeroth", "First(d1)", "Second(d1)", "SecondMixed(d1,d2)", "Third(d1)"],
                "derivative code": "-2 = DV, -1 = DT, i >= 0 = DN(i)",
                "systems": pool().systems.iter().map(|s| s.name).collect::<Vec<_>>()
            }
        })
    }
    fn assumptions(&self) -> Vec<String> {
        vec![
            "shuttle models std::sync::Mutex faithfully (sequentially consistent; no weak-memory effects)".into(),
            "rayon-core's documented join contract (both closures run to completion, results returned in argument order) is what the real scheduler provides".into(),
            "reference value of a getter = its first and only evaluation on a fresh state; tolerance 1e-9 relative".into(),
        ]
    }
}

/// Enumerated scenarios of the sweep mode: binary PC-SAFT (system 1) and ternary (system 3).
pub fn sweep_scenarios(tier: Tier) -> Vec<Scenario> {
    let p = pool();
    let mut v = Vec::new();
    let systems: &[usize] = match tier {
        Tier::Quick => &[1],
        Tier::Thorough => &[1, 0, 3],
    };
    for &system in systems {
        let n = raw_requests(p.systems[system].ncomp).len();
        for dense in [false, true] {
            if tier == Tier::Quick && dense {
                continue;
            }
            for first in 0..n {
                v.push(Scenario::Sweep { system, dense, first });
            }
        }
    }
    v
}
