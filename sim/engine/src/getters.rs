//! Registry of the public property getters of `State`, flattened to `Vec<f64>`.
use crate::systems::Eos;
use feos_core::{Contributions, EosResult, State};
use ndarray::{Array1, Array2};
use quantity::Quantity;

pub trait Flat {
    fn flat(&self, out: &mut Vec<f64>);
}

impl Flat for f64 {
    fn flat(&self, out: &mut Vec<f64>) {
        out.push(*self)
    }
}
impl Flat for Array1<f64> {
    fn flat(&self, out: &mut Vec<f64>) {
        out.extend(self.iter().copied())
    }
}
impl Flat for Array2<f64> {
    fn flat(&self, out: &mut Vec<f64>) {
        out.extend(self.iter().copied())
    }
}
impl<U> Flat for Quantity<f64, U> {
    fn flat(&self, out: &mut Vec<f64>) {
        out.push(self.convert_to(Quantity::<f64, U>::new(1.0)))
    }
}
impl<U> Flat for Quantity<Array1<f64>, U> {
    fn flat(&self, out: &mut Vec<f64>) {
        let a: Array1<f64> = self.convert_to(Quantity::<f64, U>::new(1.0));
        out.extend(a.iter().copied())
    }
}
impl<U> Flat for Quantity<Array2<f64>, U> {
    fn flat(&self, out: &mut Vec<f64>) {
        let a: Array2<f64> = self.convert_to(Quantity::<f64, U>::new(1.0));
        out.extend(a.iter().copied())
    }
}
impl<T: Flat> Flat for EosResult<T> {
    fn flat(&self, out: &mut Vec<f64>) {
        match self {
            Ok(x) => x.flat(out),
            Err(_) => out.push(f64::NAN),
        }
    }
}
impl<T: Flat> Flat for Vec<(String, T)> {
    fn flat(&self, out: &mut Vec<f64>) {
        for (_, x) in self {
            x.flat(out)
        }
    }
}

pub type GetterFn = fn(&State<Eos>, Contributions) -> Vec<f64>;

#[derive(Clone, Copy)]
pub struct Getter {
    pub name: &'static str,
    pub contrib: bool,
    pub entropy_scaling: bool,
    pub min_comp: usize,
    pub f: GetterFn,
}

macro_rules! g {
    ($v:ident, $name:literal, $es:expr, $mc:expr, |$s:ident| $e:expr) => {
        $v.push(Getter {
            name: $name,
            contrib: false,
            entropy_scaling: $es,
            min_comp: $mc,
            f: |$s: &State<Eos>, _c: Contributions| {
                let mut o = Vec::new();
                ($e).flat(&mut o);
                o
            },
        })
    };
}
macro_rules! gc {
    ($v:ident, $name:literal, |$s:ident, $c:ident| $e:expr) => {
        $v.push(Getter {
            name: $name,
            contrib: true,
            entropy_scaling: false,
            min_comp: 1,
            f: |$s: &State<Eos>, $c: Contributions| {
                let mut o = Vec::new();
                ($e).flat(&mut o);
                o
            },
        })
    };
}

pub fn getters() -> Vec<Getter> {
    let mut v: Vec<Getter> = Vec::new();
    // residual_properties.rs
    g!(v, "residual_helmholtz_energy", false, 1, |s| s.residual_helmholtz_energy());
    g!(v, "residual_molar_helmholtz_energy", false, 1, |s| s.residual_molar_helmholtz_energy());
    g!(v, "residual_helmholtz_energy_contributions", false, 1, |s| s.residual_helmholtz_energy_contributions());
    g!(v, "residual_entropy", false, 1, |s| s.residual_entropy());
    g!(v, "residual_molar_entropy", false, 1, |s| s.residual_molar_entropy());
    gc!(v, "pressure", |s, c| s.pressure(c));
    g!(v, "residual_chemical_potential", false, 1, |s| s.residual_chemical_potential());
    g!(v, "residual_chemical_potential_contributions", false, 1, |s| s.residual_chemical_potential_contributions(0));
    gc!(v, "compressibility", |s, c| s.compressibility(c));
    gc!(v, "dp_dv", |s, c| s.dp_dv(c));
    gc!(v, "dp_drho", |s, c| s.dp_drho(c));
    gc!(v, "dp_dt", |s, c| s.dp_dt(c));
    gc!(v, "dp_dni", |s, c| s.dp_dni(c));
    gc!(v, "d2p_dv2", |s, c| s.d2p_dv2(c));
    gc!(v, "d2p_drho2", |s, c| s.d2p_drho2(c));
    g!(v, "structure_factor", false, 1, |s| s.structure_factor());
    g!(v, "partial_molar_volume", false, 1, |s| s.partial_molar_volume());
    gc!(v, "dmu_dni", |s, c| s.dmu_dni(c));
    g!(v, "isothermal_compressibility", false, 1, |s| s.isothermal_compressibility());
    g!(v, "pressure_contributions", false, 1, |s| s.pressure_contributions());
    g!(v, "ds_res_dt", false, 1, |s| s.ds_res_dt());
    g!(v, "d2s_res_dt2", false, 1, |s| s.d2s_res_dt2());
    g!(v, "dmu_res_dt", false, 1, |s| s.dmu_res_dt());
    g!(v, "ln_phi", false, 1, |s| s.ln_phi());
    g!(v, "ln_phi_pure_liquid", false, 1, |s| s.ln_phi_pure_liquid());
    g!(v, "ln_symmetric_activity_coefficient", false, 1, |s| s.ln_symmetric_activity_coefficient());
    g!(v, "dln_phi_dt", false, 1, |s| s.dln_phi_dt());
    g!(v, "dln_phi_dp", false, 1, |s| s.dln_phi_dp());
    g!(v, "dln_phi_dnj", false, 1, |s| s.dln_phi_dnj());
    g!(v, "thermodynamic_factor", false, 2, |s| s.thermodynamic_factor());
    g!(v, "residual_molar_isochoric_heat_capacity", false, 1, |s| s.residual_molar_isochoric_heat_capacity());
    g!(v, "dc_v_res_dt", false, 1, |s| s.dc_v_res_dt());
    g!(v, "residual_molar_isobaric_heat_capacity", false, 1, |s| s.residual_molar_isobaric_heat_capacity());
    g!(v, "residual_enthalpy", false, 1, |s| s.residual_enthalpy());
    g!(v, "residual_molar_enthalpy", false, 1, |s| s.residual_molar_enthalpy());
    g!(v, "residual_internal_energy", false, 1, |s| s.residual_internal_energy());
    g!(v, "residual_molar_internal_energy", false, 1, |s| s.residual_molar_internal_energy());
    g!(v, "residual_gibbs_energy", false, 1, |s| s.residual_gibbs_energy());
    g!(v, "residual_molar_gibbs_energy", false, 1, |s| s.residual_molar_gibbs_energy());
    // mass specific
    g!(v, "total_molar_weight", false, 1, |s| s.total_molar_weight());
    g!(v, "mass", false, 1, |s| s.mass());
    g!(v, "total_mass", false, 1, |s| s.total_mass());
    g!(v, "mass_density", false, 1, |s| s.mass_density());
    g!(v, "massfracs", false, 1, |s| s.massfracs());
    // entropy scaling
    g!(v, "viscosity", true, 1, |s| s.viscosity());
    g!(v, "ln_viscosity_reduced", true, 1, |s| s.ln_viscosity_reduced());
    g!(v, "viscosity_reference", true, 1, |s| s.viscosity_reference());
    g!(v, "diffusion", true, 1, |s| s.diffusion());
    g!(v, "ln_diffusion_reduced", true, 1, |s| s.ln_diffusion_reduced());
    g!(v, "thermal_conductivity", true, 1, |s| s.thermal_conductivity());
    g!(v, "ln_thermal_conductivity_reduced", true, 1, |s| s.ln_thermal_conductivity_reduced());
    // properties.rs
    gc!(v, "chemical_potential", |s, c| s.chemical_potential(c));
    gc!(v, "dmu_dt", |s, c| s.dmu_dt(c));
    gc!(v, "molar_isochoric_heat_capacity", |s, c| s.molar_isochoric_heat_capacity(c));
    gc!(v, "dc_v_dt", |s, c| s.dc_v_dt(c));
    gc!(v, "molar_isobaric_heat_capacity", |s, c| s.molar_isobaric_heat_capacity(c));
    gc!(v, "entropy", |s, c| s.entropy(c));
    gc!(v, "molar_entropy", |s, c| s.molar_entropy(c));
    g!(v, "partial_molar_entropy", false, 1, |s| s.partial_molar_entropy());
    gc!(v, "ds_dt", |s, c| s.ds_dt(c));
    gc!(v, "d2s_dt2", |s, c| s.d2s_dt2(c));
    gc!(v, "enthalpy", |s, c| s.enthalpy(c));
    gc!(v, "molar_enthalpy", |s, c| s.molar_enthalpy(c));
    g!(v, "partial_molar_enthalpy", false, 1, |s| s.partial_molar_enthalpy());
    gc!(v, "helmholtz_energy", |s, c| s.helmholtz_energy(c));
    gc!(v, "molar_helmholtz_energy", |s, c| s.molar_helmholtz_energy(c));
    gc!(v, "internal_energy", |s, c| s.internal_energy(c));
    gc!(v, "molar_internal_energy", |s, c| s.molar_internal_energy(c));
    gc!(v, "gibbs_energy", |s, c| s.gibbs_energy(c));
    gc!(v, "molar_gibbs_energy", |s, c| s.molar_gibbs_energy(c));
    g!(v, "joule_thomson", false, 1, |s| s.joule_thomson());
    g!(v, "isentropic_compressibility", false, 1, |s| s.isentropic_compressibility());
    g!(v, "isenthalpic_compressibility", false, 1, |s| s.isenthalpic_compressibility());
    g!(v, "thermal_expansivity", false, 1, |s| s.thermal_expansivity());
    g!(v, "grueneisen_parameter", false, 1, |s| s.grueneisen_parameter());
    gc!(v, "chemical_potential_contributions", |s, c| s.chemical_potential_contributions(0, c));
    gc!(v, "specific_isochoric_heat_capacity", |s, c| s.specific_isochoric_heat_capacity(c));
    gc!(v, "specific_isobaric_heat_capacity", |s, c| s.specific_isobaric_heat_capacity(c));
    gc!(v, "specific_entropy", |s, c| s.specific_entropy(c));
    gc!(v, "specific_enthalpy", |s, c| s.specific_enthalpy(c));
    gc!(v, "specific_helmholtz_energy", |s, c| s.specific_helmholtz_energy(c));
    gc!(v, "specific_internal_energy", |s, c| s.specific_internal_energy(c));
    gc!(v, "specific_gibbs_energy", |s, c| s.specific_gibbs_energy(c));
    g!(v, "speed_of_sound", false, 1, |s| s.speed_of_sound());
    v
}

pub const CONTRIBS: [Contributions; 3] = [
    Contributions::IdealGas,
    Contributions::Residual,
    Contributions::Total,
];

pub fn contrib_name(i: usize) -> &'static str {
    ["ideal", "residual", "total"][i]
}
