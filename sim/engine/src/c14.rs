//! C14 — parameter construction is order-independent and faithful to its records.
//!
//! The disk is a scratch directory written (and damaged) by the simulator; the hash
//! iteration order is a function of the run's entropy seed (getrandom seam). The
//! oracle is a reference loader written independently over `serde_json::Value`.
use crate::common::*;
use feos::epcsaft::{ElectrolytePcSaft, ElectrolytePcSaftParameters};
use feos::gc_pcsaft::{GcPcSaft, GcPcSaftEosParameters, GcPcSaftFunctional, GcPcSaftFunctionalParameters};
use feos::ideal_gas::{Dippr, Joback};
use feos::pcsaft::{PcSaft, PcSaftParameters};
use feos::pets::{Pets, PetsParameters};
use feos::saftvrmie::{SaftVRMie, SaftVRMieParameters};
use feos::saftvrqmie::{SaftVRQMie, SaftVRQMieParameters};
use feos::uvtheory::{UVTheory, UVTheoryParameters};
use feos_core::cubic::{PengRobinson, PengRobinsonParameters};
use feos_core::parameter::{
    BinaryRecord, ChemicalRecord, Identifier, IdentifierOption, Parameter, ParameterHetero, PureRecord, SegmentRecord,
};
use feos_core::{IdealGas, Residual, StateHD};
use ndarray::{arr1, Array1, Array2};
use serde::de::DeserializeOwned;
use serde::{Deserialize, Serialize};
use serde_json::{json, Map, Value};
use std::path::{Path, PathBuf};
use std::sync::Arc;

const ID_KINDS: [&str; 6] = ["cas", "name", "iupac_name", "smiles", "inchi", "formula"];

fn id_option(k: usize) -> IdentifierOption {
    [
        IdentifierOption::Cas,
        IdentifierOption::Name,
        IdentifierOption::IupacName,
        IdentifierOption::Smiles,
        IdentifierOption::Inchi,
        IdentifierOption::Formula,
    ][k]
}

// ------------------------------------------------------------------ scenario

#[derive(Serialize, Deserialize, Clone, Debug, PartialEq)]
pub enum Fault {
    None,
    Truncate { file: usize, frac: f64 },
    Empty { file: usize },
    Missing { file: usize },
    Directory { file: usize },
    ByteFlip { file: usize, frac: f64, byte: u8 },
    TrailingGarbage { file: usize },
    /// binary file replaced by the binary file of another collection
    StaleBinary,
}

#[derive(Serialize, Deserialize, Clone, Debug)]
pub enum Query {
    /// from_json / from_multiple_json: `split` = number of pure files the query is spread over
    Json { subs: Vec<usize>, split: usize, with_binary: bool },
    /// query with a duplicated substance
    JsonDuplicate { subs: Vec<usize>, dup: usize },
    /// query with a substance that is in no file
    JsonMissing { subs: Vec<usize> },
    /// from_records given in query order, binary records matched by identifier
    Records { subs: Vec<usize> },
    /// new_binary
    NewBinary { a: usize, b: usize, with_binary: bool },
    /// subset of a larger parameter set
    Subset { subs: Vec<usize>, pick: Vec<usize> },
    /// serde round trip of every record of the query
    RoundTrip { subs: Vec<usize> },
    /// homosegmented group contribution: from_json_segments
    Segments { mols: Vec<usize>, with_binary: bool, joback: bool },
    /// heterosegmented group contribution: metamorphic checks
    Hetero { mols: Vec<usize>, with_binary: bool },
}

#[derive(Serialize, Deserialize, Clone, Debug)]
pub struct Scenario {
    pub model: usize,
    /// seed of the record universe (values, file order, orientations)
    pub universe: u64,
    pub n_subs: usize,
    pub id_kind: usize,
    pub queries: Vec<Query>,
    pub fault: Fault,
}

// ------------------------------------------------------------------ record universe

struct Universe {
    /// pure records (complete identifiers), in canonical order
    pure: Vec<Value>,
    /// binary records: (i, j, model_record) with i < j canonical
    binary: Vec<(usize, usize, Value)>,
    /// file order of pure records and orientation of binary records
    pure_order: Vec<usize>,
    binary_order: Vec<(usize, bool)>,
    /// group contribution: segment records, chemical records, binary segment records
    segments: Vec<Value>,
    molecules: Vec<Value>,
    seg_binary: Vec<(usize, usize, f64)>,
    seg_order: Vec<usize>,
    mol_order: Vec<usize>,
    seg_binary_order: Vec<(usize, bool)>,
}

fn ident_full(k: usize) -> Value {
    json!({
        "cas": format!("{}-{:02}-{}", 100 + k, (k * 7) % 100, k % 10),
        "name": format!("substance {k}"),
        "iupac_name": format!("iupac-{k}-ane"),
        "smiles": format!("C{}", "C".repeat(k + 1)),
        "inchi": format!("InChI=1/C{}H{}", k + 2, 2 * k + 6),
        "formula": format!("C{}H{}", k + 2, 2 * k + 6),
    })
}

/// the identifier as stored: some substances lack some kinds of identifier (a query by that kind
/// must then fail for them, and a binary record cannot be matched through it)
fn ident(k: usize) -> Value {
    let mut v = ident_full(k);
    let m = v.as_object_mut().unwrap();
    if k % 4 == 3 {
        m.remove("smiles");
        m.remove("inchi");
    }
    if k % 5 == 2 {
        m.remove("iupac_name");
    }
    if k % 7 == 5 {
        m.remove("cas");
    }
    v
}

/// unique value generator: every number in a universe is different, so every returned
/// parameter is attributable to exactly one record
struct Uniq {
    rng: Rng,
    k: u64,
}

impl Uniq {
    fn val(&mut self, lo: f64, hi: f64) -> f64 {
        self.k += 1;
        // 6 random decimals + a unique tag in decimals 7..9
        let x = lo + (hi - lo) * self.rng.f64();
        q9((x * 1e5).round() / 1e5 + self.k as f64 * 1e-8)
    }
}

impl Uniq {
    /// boundary value: an optional parameter that is present and exactly zero (one in eight)
    fn val0(&mut self, lo: f64, hi: f64) -> f64 {
        let v = self.val(lo, hi);
        if self.rng.below(8) == 0 {
            0.0
        } else {
            v
        }
    }
}

fn pure_model_record(model: usize, u: &mut Uniq, k: usize) -> Value {
    match model {
        // PC-SAFT: optional polar / association / entropy scaling fields
        0 => {
            let mut m = Map::new();
            m.insert("m".into(), json!(u.val(1.0, 3.0)));
            m.insert("sigma".into(), json!(u.val(3.0, 4.0)));
            m.insert("epsilon_k".into(), json!(u.val(150.0, 300.0)));
            if k % 3 == 1 {
                m.insert("mu".into(), json!(u.val0(1.0, 2.5)));
            }
            if k % 4 == 2 {
                m.insert("q".into(), json!(u.val0(1.0, 4.0)));
            }
            if k % 2 == 0 {
                m.insert("kappa_ab".into(), json!(u.val0(0.01, 0.06)));
                m.insert("epsilon_k_ab".into(), json!(u.val0(1500.0, 2800.0)));
                m.insert("na".into(), json!(1.0));
                m.insert("nb".into(), json!(1.0 + (k % 4 / 2) as f64));
            }
            if k % 5 == 0 || k % 5 == 3 {
                m.insert("viscosity".into(), json!([u.val(-1.5, -0.5), u.val(-3.0, -1.0), u.val(-0.5, 0.0), u.val(-0.2, 0.0)]));
            }
            if k % 5 == 3 || k % 7 == 1 {
                m.insert("diffusion".into(), json!([u.val(-0.5, 0.5), u.val(-0.5, 0.5), u.val(-0.5, 0.5), u.val(-0.1, 0.1), u.val(-0.1, 0.1)]));
                m.insert("thermal_conductivity".into(), json!([u.val(-0.5, 0.5), u.val(-0.5, 0.5), u.val(-0.5, 0.5), u.val(-0.1, 0.1)]));
            }
            if k % 6 == 4 {
                m.insert("nc".into(), json!(1.0));
            }
            Value::Object(m)
        }
        // SAFT-VR Mie
        1 => json!({"m": u.val(1.0, 2.5), "sigma": u.val(3.2, 4.2), "epsilon_k": u.val(180.0, 320.0), "lr": u.val(11.0, 18.0), "la": 6.0}),
        // SAFT-VRQ Mie
        2 => json!({"m": 1.0, "sigma": u.val(2.6, 3.2), "epsilon_k": u.val(20.0, 40.0), "lr": u.val(9.0, 13.0), "la": 6.0, "fh": 1 + k % 2}),
        // ePC-SAFT (neutral species)
        3 => {
            if k % 2 == 1 {
                json!({"m": u.val(1.0, 3.0), "sigma": u.val(3.0, 4.0), "epsilon_k": u.val(150.0, 300.0),
                       "kappa_ab": u.val0(0.01, 0.06), "epsilon_k_ab": u.val0(1500.0, 2800.0), "na": 1.0, "nb": 1.0})
            } else {
                json!({"m": u.val(1.0, 3.0), "sigma": u.val(3.0, 4.0), "epsilon_k": u.val(150.0, 300.0)})
            }
        }
        // PeTS
        4 => json!({"sigma": u.val(3.0, 4.0), "epsilon_k": u.val(100.0, 200.0)}),
        // uv-theory
        5 => json!({"rep": u.val(10.0, 16.0), "att": 6.0, "sigma": u.val(3.0, 4.0), "epsilon_k": u.val(100.0, 200.0)}),
        // Joback
        6 => json!({"a": u.val(10.0, 40.0), "b": u.val(0.01, 0.2), "c": u.val(1e-5, 1e-4), "d": u.val(-1e-7, 1e-7), "e": u.val(0.0, 1e-11)}),
        // DIPPR
        7 => json!({"DIPPR100": [u.val(20.0, 60.0), u.val(0.01, 0.1), u.val(1e-5, 1e-4)]}),
        // Peng-Robinson
        _ => json!({"tc": u.val(300.0, 600.0), "pc": u.val(2.0e6, 5.0e6), "acentric_factor": u.val(0.05, 0.4)}),
    }
}

fn binary_model_record(model: usize, u: &mut Uniq, k: usize) -> Value {
    match model {
        0 => {
            if k % 3 == 0 {
                json!({"k_ij": u.val0(-0.05, 0.1), "kappa_ab": u.val0(0.01, 0.05), "epsilon_k_ab": u.val0(1500.0, 2500.0)})
            } else if k % 3 == 1 && k % 2 == 0 {
                // association override only (k_ij absent = 0)
                json!({"kappa_ab": u.val0(0.01, 0.05), "epsilon_k_ab": u.val0(1500.0, 2500.0)})
            } else {
                json!({"k_ij": u.val(-0.05, 0.1)})
            }
        }
        1 => json!({"k_ij": u.val0(-0.05, 0.1), "gamma_ij": u.val(0.9, 1.1)}),
        2 => json!({"k_ij": u.val0(-0.05, 0.1), "l_ij": u.val0(-0.05, 0.05)}),
        3 => json!({"k_ij": [u.val(-0.05, 0.1), u.val(-1e-4, 1e-4)]}),
        4 | 5 => json!({"k_ij": u.val(-0.05, 0.1)}),
        6 | 7 => Value::Null,
        _ => json!(u.val(-0.05, 0.1)),
    }
}

const N_MODELS: usize = 9;
const MODEL_NAMES: [&str; N_MODELS] = ["pcsaft", "saftvrmie", "saftvrqmie", "epcsaft", "pets", "uvtheory", "joback", "dippr", "peng-robinson"];

fn has_binary(model: usize) -> bool {
    !matches!(model, 6 | 7)
}

fn universe(sc: &Scenario) -> Universe {
    let mut u = Uniq { rng: Rng::new(sc.universe), k: 0 };
    let n = sc.n_subs;
    let pure: Vec<Value> = (0..n)
        .map(|k| json!({"identifier": ident(k), "molarweight": u.val(16.0, 120.0), "model_record": pure_model_record(sc.model, &mut u, k)}))
        .collect();
    let mut binary = Vec::new();
    let mut kk = 0;
    for i in 0..n {
        for j in i + 1..n {
            if u.rng.chance(0.6) {
                binary.push((i, j, binary_model_record(sc.model, &mut u, kk)));
                kk += 1;
            }
        }
    }
    let mut pure_order: Vec<usize> = (0..n).collect();
    u.rng.shuffle(&mut pure_order);
    let mut bo: Vec<usize> = (0..binary.len()).collect();
    u.rng.shuffle(&mut bo);
    let binary_order = bo.into_iter().map(|k| (k, u.rng.chance(0.5))).collect();
    // group contribution universe
    let nseg = 7;
    let segments: Vec<Value> = (0..nseg)
        .map(|s| {
            json!({"identifier": format!("SEG{s}"), "molarweight": u.val(12.0, 30.0),
                   "model_record": {"m": u.val(0.5, 1.2), "sigma": u.val(3.2, 4.0), "epsilon_k": u.val(180.0, 280.0), "a": u.val(1.0, 30.0), "b": u.val(0.01, 0.1), "c": u.val(1e-5, 1e-4), "d": u.val(-1e-7, 1e-7), "e": 0.0}})
        })
        .collect();
    let molecules: Vec<Value> = (0..n)
        .map(|k| {
            let len = u.rng.range(2, 8);
            let segs: Vec<String> = (0..len).map(|_| format!("SEG{}", u.rng.below(nseg))).collect();
            // a tree: every segment after the first bonds to an earlier one
            let bonds: Vec<[usize; 2]> = (1..len).map(|i| [u.rng.below(i), i]).collect();
            json!({"identifier": ident(k), "segments": segs, "bonds": bonds})
        })
        .collect();
    let mut seg_binary = Vec::new();
    for a in 0..nseg {
        for b in a + 1..nseg {
            if u.rng.chance(0.5) {
                seg_binary.push((a, b, u.val(-0.05, 0.1)));
            }
        }
    }
    let mut seg_order: Vec<usize> = (0..nseg).collect();
    u.rng.shuffle(&mut seg_order);
    let mut mol_order: Vec<usize> = (0..n).collect();
    u.rng.shuffle(&mut mol_order);
    let mut sbo: Vec<usize> = (0..seg_binary.len()).collect();
    u.rng.shuffle(&mut sbo);
    let seg_binary_order = sbo.into_iter().map(|k| (k, u.rng.chance(0.5))).collect();
    Universe { pure, binary, pure_order, binary_order, segments, molecules, seg_binary, seg_order, mol_order, seg_binary_order }
}

// ------------------------------------------------------------------ simulated disk

struct Disk {
    dir: PathBuf,
}

impl Disk {
    fn new(tag: u64) -> Disk {
        let base = std::env::var("VERIF_SCRATCH").unwrap_or_else(|_| "/dev/shm".into());
        let dir = PathBuf::from(base).join(format!("feos-sim-{}-{:016x}", std::process::id(), tag));
        let _ = std::fs::remove_dir_all(&dir);
        std::fs::create_dir_all(&dir).unwrap_or_else(|e| crate::systems::harness(&format!("scratch dir {}: {e}", dir.display())));
        Disk { dir }
    }
    fn path(&self, name: &str) -> PathBuf {
        self.dir.join(name)
    }
    fn write(&self, name: &str, v: &Value) {
        std::fs::write(self.path(name), serde_json::to_vec_pretty(v).unwrap()).unwrap_or_else(|e| crate::systems::harness(&format!("write {name}: {e}")));
    }
}

impl Drop for Disk {
    fn drop(&mut self) {
        let _ = std::fs::remove_dir_all(&self.dir);
    }
}

fn apply_fault(disk: &Disk, files: &[&str], fault: &Fault, out: &mut RunOutcome) {
    let pick = |k: usize| files[k % files.len()];
    match fault {
        Fault::None | Fault::StaleBinary => {}
        Fault::Truncate { file, frac } => {
            let p = disk.path(pick(*file));
            if let Ok(b) = std::fs::read(&p) {
                let n = ((b.len() as f64) * frac) as usize;
                let _ = std::fs::write(&p, &b[..n.min(b.len())]);
                out.count("fault.torn_write_truncated_file", 1);
            }
        }
        Fault::Empty { file } => {
            let _ = std::fs::write(disk.path(pick(*file)), b"");
            out.count("fault.empty_file", 1);
        }
        Fault::Missing { file } => {
            let _ = std::fs::remove_file(disk.path(pick(*file)));
            out.count("fault.missing_file", 1);
        }
        Fault::Directory { file } => {
            let p = disk.path(pick(*file));
            let _ = std::fs::remove_file(&p);
            let _ = std::fs::create_dir(&p);
            out.count("fault.read_error_directory", 1);
        }
        Fault::ByteFlip { file, frac, byte } => {
            let p = disk.path(pick(*file));
            if let Ok(mut b) = std::fs::read(&p) {
                if !b.is_empty() {
                    let n = (((b.len() - 1) as f64) * frac) as usize;
                    b[n] = *byte;
                    let _ = std::fs::write(&p, &b);
                    out.count("fault.corrupt_byte", 1);
                }
            }
        }
        Fault::TrailingGarbage { file } => {
            let p = disk.path(pick(*file));
            if let Ok(mut b) = std::fs::read(&p) {
                b.extend_from_slice(b"\n{\"torn\": tr");
                let _ = std::fs::write(&p, &b);
                out.count("fault.trailing_garbage", 1);
            }
        }
    }
}

// ------------------------------------------------------------------ reference loader (over serde_json::Value)

fn read_value(p: &Path) -> Result<Value, String> {
    let b = std::fs::read(p).map_err(|e| format!("io: {e}"))?;
    serde_json::from_slice(&b).map_err(|e| {
        let msg = e.to_string();
        if msg.contains("number out of range") {
            // a generic Value cannot hold the number, a typed reader that skips the field can:
            // whether the damage matters depends on the field, so the case is not judged
            format!("ambiguous: {msg}")
        } else {
            format!("json: {msg}")
        }
    })
}

fn id_of(rec: &Value, kind: usize) -> Option<String> {
    rec.get("identifier")?.get(ID_KINDS[kind])?.as_str().map(|s| s.to_string())
}

/// find the records of the queried identifiers, in query order
fn ref_pure(files: &[(Vec<String>, PathBuf)], kind: usize) -> Result<Vec<Value>, String> {
    let all: Vec<&String> = files.iter().flat_map(|(q, _)| q.iter()).collect();
    for (i, a) in all.iter().enumerate() {
        if all[..i].contains(a) {
            return Err("duplicate substance in query".into());
        }
    }
    let mut out = Vec::new();
    for (q, path) in files {
        let v = read_value(path)?;
        let list = v.as_array().ok_or("pure file is not a list")?;
        for name in q {
            let rec = list.iter().find(|r| id_of(r, kind).as_deref() == Some(name.as_str())).ok_or(format!("substance {name} not found"))?;
            out.push(rec.clone());
        }
    }
    Ok(out)
}

/// binary model records for every ordered pair, looked up in both orientations
fn ref_binary(pure: &[Value], path: Option<&Path>, kind: usize) -> Result<Option<Vec<Vec<Value>>>, String> {
    let Some(path) = path else { return Ok(None) };
    let v = read_value(path)?;
    let list = v.as_array().ok_or("binary file is not a list")?;
    if list.is_empty() {
        return Ok(None);
    }
    let ids: Vec<Option<String>> = pure.iter().map(|r| id_of(r, kind)).collect();
    let key = |r: &Value, which: &str| r.get(which).and_then(|i| i.get(ID_KINDS[kind])).and_then(|s| s.as_str()).map(|s| s.to_string());
    let n = pure.len();
    let mut m = vec![vec![Value::Null; n]; n];
    for i in 0..n {
        for j in 0..n {
            // the documented behaviour: (id_i, id_j) first, then (id_j, id_i), default otherwise;
            // when a pair is stored more than once the last record in file order wins
            let mut direct = None;
            let mut reverse = None;
            for r in list {
                let (a, b) = (key(r, "id1"), key(r, "id2"));
                if a.is_some() && b.is_some() {
                    if a == ids[i] && b == ids[j] {
                        direct = r.get("model_record").cloned();
                    }
                    if a == ids[j] && b == ids[i] {
                        reverse = r.get("model_record").cloned();
                    }
                }
            }
            m[i][j] = direct.or(reverse).unwrap_or(Value::Null);
        }
    }
    Ok(Some(m))
}

fn build_ref<P: Parameter>(pure: &[Value], binary: &Option<Vec<Vec<Value>>>) -> Result<P, String>
where
    P::Pure: DeserializeOwned,
    P::Binary: DeserializeOwned + Default,
{
    let recs: Vec<PureRecord<P::Pure>> = pure
        .iter()
        .map(|v| serde_json::from_value(v.clone()).map_err(|e| format!("pure record: {e}")))
        .collect::<Result<_, _>>()?;
    let n = recs.len();
    let bin = match binary {
        None => None,
        Some(m) => {
            let mut a: Vec<P::Binary> = Vec::with_capacity(n * n);
            for row in m {
                for v in row {
                    a.push(if v.is_null() { P::Binary::default() } else { serde_json::from_value(v.clone()).map_err(|e| format!("binary record: {e}"))? });
                }
            }
            Some(Array2::from_shape_vec((n, n), a).unwrap())
        }
    };
    P::from_records(recs, bin).map_err(|e| format!("from_records: {e}"))
}

// ------------------------------------------------------------------ behaviour of a parameter set

pub trait Behave: Parameter {
    /// numbers that characterise the behaviour of the model built from the parameters,
    /// evaluated for the given mole numbers (one per component, in component order)
    fn behave_with(self, moles: Array1<f64>) -> Vec<f64>;
    fn behave(self) -> Vec<f64> {
        let n = self.records().0.len();
        self.behave_with((0..n).map(|i| 0.5 + 0.3 * i as f64).collect())
    }
}

fn state(n: usize) -> StateHD<f64> {
    let moles: Array1<f64> = (0..n).map(|i| 0.5 + 0.3 * i as f64).collect();
    StateHD::new(350.0, 1500.0 * moles.sum(), moles)
}

/// mole number attached to a *substance* (not to a position), so that parameter sets holding
/// the same substances in different orders describe the same mixture
fn moles_of(subs: &[usize]) -> Array1<f64> {
    subs.iter().map(|&k| 0.4 + 0.27 * k as f64).collect()
}

macro_rules! behave_eos {
    ($p:ty, $eos:ident) => {
        impl Behave for $p {
            fn behave_with(self, moles: Array1<f64>) -> Vec<f64> {
                let eos = $eos::new(Arc::new(self));
                let s = StateHD::new(350.0, 1500.0 * moles.sum(), moles);
                let mut v = vec![eos.residual_helmholtz_energy(&s)];
                v.push(eos.compute_max_density(&s.moles));
                v
            }
        }
    };
}
impl Behave for PcSaftParameters {
    fn behave_with(self, moles: Array1<f64>) -> Vec<f64> {
        use feos_core::EntropyScaling;
        let has = [self.viscosity.is_some(), self.diffusion.is_some(), self.thermal_conductivity.is_some()];
        let eos = PcSaft::new(Arc::new(self));
        let x = &moles / moles.sum();
        let s = StateHD::new(350.0, 1500.0 * moles.sum(), moles);
        let mut v = vec![eos.residual_helmholtz_energy(&s), eos.compute_max_density(&s.moles)];
        // entropy scaling parameters only show in the correlation functions
        // (the correlation functions panic when the coefficients are missing for a component)
        v.push(if has[0] { eos.viscosity_correlation(-1.3, &x).unwrap_or(-2e99) } else { -1e99 });
        v.push(if has[1] { eos.diffusion_correlation(-1.3, &x).unwrap_or(-2e99) } else { -1e99 });
        v.push(if has[2] { eos.thermal_conductivity_correlation(-1.3, &x).unwrap_or(-2e99) } else { -1e99 });
        v
    }
}
behave_eos!(SaftVRMieParameters, SaftVRMie);
behave_eos!(ElectrolytePcSaftParameters, ElectrolytePcSaft);
behave_eos!(PetsParameters, Pets);
behave_eos!(UVTheoryParameters, UVTheory);
behave_eos!(PengRobinsonParameters, PengRobinson);

impl Behave for SaftVRQMieParameters {
    fn behave_with(self, moles: Array1<f64>) -> Vec<f64> {
        let eos = SaftVRQMie::new(Arc::new(self));
        let s = StateHD::new(45.0, 900.0 * moles.sum(), moles);
        vec![eos.residual_helmholtz_energy(&s), eos.compute_max_density(&s.moles)]
    }
}
impl Behave for Joback {
    fn behave_with(self, moles: Array1<f64>) -> Vec<f64> {
        // mole-number weighted sums: invariant under a relabelling of the components
        let v = (self.ln_lambda3(350.0) * &moles).sum();
        let w = (self.ln_lambda3(411.0) * &moles).sum();
        let mut per: Vec<f64> = self.ln_lambda3(377.0).to_vec();
        per.sort_by(|a, b| a.total_cmp(b));
        let mut r = vec![v, w];
        r.extend(per);
        r
    }
}
impl Behave for Dippr {
    fn behave_with(self, moles: Array1<f64>) -> Vec<f64> {
        // mole-number weighted sums: invariant under a relabelling of the components
        let v = (self.ln_lambda3(350.0) * &moles).sum();
        let w = (self.ln_lambda3(411.0) * &moles).sum();
        let mut per: Vec<f64> = self.ln_lambda3(377.0).to_vec();
        per.sort_by(|a, b| a.total_cmp(b));
        let mut r = vec![v, w];
        r.extend(per);
        r
    }
}

fn same(a: &[f64], b: &[f64], tol: f64) -> f64 {
    if a.len() != b.len() {
        return f64::INFINITY;
    }
    a.iter().zip(b).map(|(x, y)| deviation(*x, *y, 1e-300)).fold(0.0, f64::max).max(if tol < 0.0 { 1.0 } else { 0.0 })
}

fn records_value<P: Parameter>(p: &P) -> Value
where
    P::Pure: Serialize,
    P::Binary: Serialize,
{
    let (pure, bin) = p.records();
    json!({
        "pure": pure.iter().map(|r| serde_json::to_value(r).unwrap()).collect::<Vec<_>>(),
        "binary": bin.map(|b| b.outer_iter().map(|row| row.iter().map(|x| serde_json::to_value(x).unwrap()).collect::<Vec<_>>()).collect::<Vec<_>>()),
    })
}

// ------------------------------------------------------------------ queries on `Parameter` models

struct Env<'a> {
    sc: &'a Scenario,
    uni: &'a Universe,
    disk: &'a Disk,
    pure_files: Vec<String>,
    binary_file: Option<String>,
    faulted: bool,
}

fn name_of(env: &Env, k: usize) -> String {
    // (the identifier the user would type, whether or not the stored record has it; for two
    // thirds of the records that lack the queried kind the user types the record's *name*
    // instead: an identifier of another kind must never be matched - seeded change C14-g)
    let kind = env.sc.id_kind;
    if ident(k).get(ID_KINDS[kind]).is_none() && k % 3 != 1 {
        return ident_full(k)["name"].as_str().unwrap().to_string();
    }
    ident_full(k)[ID_KINDS[kind]].as_str().unwrap().to_string()
}

fn compare<P: Behave>(out: &mut RunOutcome, dg: &mut Digest, what: &str, lib: Result<P, String>, reference: Result<P, String>, faulted: bool)
where
    P::Pure: Serialize,
    P::Binary: Serialize,
{
    out.count("oracle.compared", 1);
    match (lib, reference) {
        (Ok(a), Ok(b)) => {
            let (va, vb) = (records_value(&a), records_value(&b));
            dg.str(&va.to_string());
            if va != vb {
                out.violate("records-mismatch", "records", format!("{what}: library built {va}, reference loader {vb}"));
                return;
            }
            let (ba, bb) = (a.behave(), b.behave());
            let d = same(&ba, &bb, 0.0);
            out.max("behaviour_dev", d);
            if !(d <= 1e-12) {
                out.violate("behaviour-mismatch", "behaviour", format!("{what}: behaviour {ba:?} vs reference {bb:?}"));
            }
            out.count("probe.both_ok", 1);
        }
        (_, Err(e)) if e.starts_with("ambiguous") => out.count("window.ambiguous_duplicate_identifier_after_damage", 1),
        (Ok(a), Err(e)) => {
            // never a default substituted for an unreadable / unparsable / incomplete input
            out.violate(
                if faulted { "accepted-damaged-input" } else { "accepted-invalid-query" },
                "accepted",
                format!("{what}: library returned parameters {} although the reference loader fails: {e}", records_value(&a)),
            );
        }
        (Err(e), Ok(_)) => {
            if faulted {
                out.count("probe.failed_under_fault", 1);
            } else {
                out.violate("rejected-valid-query", "rejected", format!("{what}: library failed ({e}) on a query the reference loader answers"));
            }
        }
        (Err(_), Err(_)) => out.count("probe.both_err", 1),
    }
}

fn run_queries<P: Behave>(env: &Env, out: &mut RunOutcome, dg: &mut Digest)
where
    P::Pure: Serialize + DeserializeOwned,
    P::Binary: Serialize + DeserializeOwned + Default,
{
    let kind = env.sc.id_kind;
    let opt = id_option(kind);
    let bpath = env.binary_file.as_ref().map(|f| env.disk.path(f));
    // which pure file holds which substance
    let holder = |k: usize| -> usize { env.uni.pure_order.iter().position(|x| *x == k).unwrap() % env.pure_files.len() };
    for (qi, q) in env.sc.queries.iter().enumerate() {
        out.steps += 1;
        let what = |s: &str| format!("{} query {qi} {s} ({:?}, id kind {})", MODEL_NAMES[env.sc.model], q, ID_KINDS[kind]);
        match q {
            Query::Json { subs, split, with_binary } => {
                // group the query by holding file, keeping the requested order inside each group;
                // from_multiple_json returns the groups in the order given
                let mut groups: Vec<(Vec<String>, PathBuf)> = Vec::new();
                for &k in subs {
                    let f = env.disk.path(&env.pure_files[holder(k)]);
                    // `split`: entries strictly in request order, only adjacent substances of one file
                    // share an entry, so the same file can be named in several entries
                    let slot = if *split >= 2 { groups.last_mut().filter(|g| g.1 == f) } else { groups.iter_mut().find(|g| g.1 == f) };
                    match slot {
                        Some(g) => g.0.push(name_of(env, k)),
                        None => groups.push((vec![name_of(env, k)], f)),
                    }
                }
                let b = if *with_binary { bpath.clone() } else { None };
                let lib = if groups.len() == 1 {
                    P::from_json(groups[0].0.iter().map(|s| s.as_str()).collect(), groups[0].1.clone(), b.clone(), opt)
                } else {
                    let input: Vec<(Vec<&str>, PathBuf)> = groups.iter().map(|(q, f)| (q.iter().map(|s| s.as_str()).collect(), f.clone())).collect();
                    P::from_multiple_json(&input, b.clone(), opt)
                }
                .map_err(|e| e.to_string());
                let reference = ref_pure(&groups, kind).and_then(|p| {
                    let bin = ref_binary(&p, b.as_deref(), kind)?;
                    build_ref::<P>(&p, &bin)
                });
                out.count("op.from_json", 1);
                // the same mixture requested in another order must behave identically (mole numbers
                // are attached to substances): the model's own arrays must follow the requested order
                // (not with two or more quadrupolar components: the PC-SAFT quadrupole mixture term
                // itself is not symmetric in the component labels on this tree - polar.rs divides by
                // sigma_ij[[di, di]]^7 - which concerns the model (C08/C09), not the construction)
                let nquad = subs.iter().filter(|&&k| env.uni.pure[k]["model_record"].get("q").is_some()).count();
                if !env.faulted && subs.len() >= 2 && groups.len() == 1 && nquad < 2 {
                    if let Ok(a) = &lib {
                        let _ = a;
                        let fwd = P::from_json(groups[0].0.iter().map(|s| s.as_str()).collect(), groups[0].1.clone(), b.clone(), opt);
                        let mut rsubs = subs.clone();
                        rsubs.rotate_left(1);
                        let rnames: Vec<String> = rsubs.iter().map(|&k| name_of(env, k)).collect();
                        let rev = P::from_json(rnames.iter().map(|s| s.as_str()).collect(), groups[0].1.clone(), b.clone(), opt);
                        if let (Ok(fwd), Ok(rev)) = (fwd, rev) {
                            let (bf, br) = (fwd.behave_with(moles_of(subs)), rev.behave_with(moles_of(&rsubs)));
                            let d = same(&bf, &br, 0.0);
                            out.max("request_order_dev", d);
                            out.count("oracle.compared", 1);
                            if !(d <= 1e-9) && std::env::var("VERIF_DEBUG").is_ok() {
                                eprintln!("records fwd: {}", serde_json::to_string(&records_value(&P::from_json(groups[0].0.iter().map(|s| s.as_str()).collect(), groups[0].1.clone(), b.clone(), opt).unwrap())).unwrap());
                                eprintln!("records rev: {}", serde_json::to_string(&records_value(&P::from_json(rnames.iter().map(|s| s.as_str()).collect(), groups[0].1.clone(), b.clone(), opt).unwrap())).unwrap());
                            }
                            // iterative association solvers agree to ~3e-12 between orders; a component
                            // stored at the wrong position changes the behaviour at the percent level
                            if !(d <= 1e-9) {
                                out.violate("request-order-dependence", "request-order", format!("{}: the same substances requested in the orders {subs:?} and {rsubs:?} behave differently: {bf:?} vs {br:?}", what("from_json")));
                            }
                        }
                    }
                }
                compare(out, dg, &what("from_json"), lib, reference, env.faulted);
            }
            Query::JsonDuplicate { subs, dup } => {
                let mut names: Vec<String> = subs.iter().map(|&k| name_of(env, k)).collect();
                if names.is_empty() {
                    continue;
                }
                let d = names[dup % names.len()].clone();
                names.push(d);
                // all in the (single) file 0 is not required: duplicates must be rejected before reading
                let f = env.disk.path(&env.pure_files[0]);
                let lib = P::from_json(names.iter().map(|s| s.as_str()).collect(), f, None, opt);
                out.count("op.from_json_duplicate", 1);
                out.count("oracle.compared", 1);
                if let Ok(p) = lib {
                    out.violate("accepted-invalid-query", "duplicate", format!("{}: duplicate substance accepted: {}", what("from_json"), records_value(&p)));
                }
                // the same substance requested from two files (here: the same file listed twice)
                let in0: Vec<String> = subs.iter().filter(|&&k| holder(k) == 0).map(|&k| name_of(env, k)).collect();
                if let Some(d) = in0.get(dup % in0.len().max(1)) {
                    let f0 = env.disk.path(&env.pure_files[0]);
                    let input = vec![(in0.iter().map(|s| s.as_str()).collect::<Vec<_>>(), f0.clone()), (vec![d.as_str()], f0)];
                    out.count("op.from_multiple_json_duplicate", 1);
                    out.count("oracle.compared", 1);
                    if let Ok(p) = P::from_multiple_json(&input, None, opt) {
                        out.violate("accepted-invalid-query", "duplicate", format!("{}: substance requested from two files accepted: {}", what("from_multiple_json"), records_value(&p)));
                    }
                }
            }
            Query::JsonMissing { subs } => {
                let mut names: Vec<String> = subs.iter().filter(|&&k| holder(k) == 0).map(|&k| name_of(env, k)).collect();
                names.push("no such substance".into());
                let f = env.disk.path(&env.pure_files[0]);
                let lib = P::from_json(names.iter().map(|s| s.as_str()).collect(), f, None, opt);
                out.count("op.from_json_missing", 1);
                out.count("oracle.compared", 1);
                if let Ok(p) = lib {
                    out.violate("accepted-invalid-query", "missing", format!("{}: missing substance accepted: {}", what("from_json"), records_value(&p)));
                }
            }
            Query::Records { subs } => {
                // records handed over in query order; binary records as a list in file order
                let pure: Vec<Value> = subs.iter().map(|&k| env.uni.pure[k].clone()).collect();
                // binary_matrix_from_records documents (expect) that every pure record carries the
                // chosen kind of identifier
                if pure.iter().any(|v| id_of(v, kind).is_none()) {
                    out.count("window.record_without_the_chosen_identifier", 1);
                    continue;
                }
                let recs: Result<Vec<PureRecord<P::Pure>>, _> = pure.iter().map(|v| serde_json::from_value(v.clone())).collect();
                let Ok(recs) = recs else { continue };
                let blist: Vec<Value> = binary_file_value(env.uni).as_array().cloned().unwrap_or_default();
                let brecs: Result<Vec<BinaryRecord<Identifier, P::Binary>>, _> = blist.iter().map(|v| serde_json::from_value(v.clone())).collect();
                let Ok(brecs) = brecs else { continue };
                let matrix = P::binary_matrix_from_records(&recs, &brecs, opt);
                let lib = P::from_records(recs, matrix).map_err(|e| e.to_string());
                // reference from the in-memory universe
                let n = subs.len();
                let bin = if env.uni.binary.is_empty() {
                    None
                } else {
                    let mut m = vec![vec![Value::Null; n]; n];
                    for (a, &i) in subs.iter().enumerate() {
                        for (b, &j) in subs.iter().enumerate() {
                            if let Some(r) = env.uni.binary.iter().find(|r| (r.0 == i && r.1 == j) || (r.0 == j && r.1 == i)) {
                                m[a][b] = r.2.clone();
                            }
                        }
                    }
                    Some(m)
                };
                out.count("op.from_records", 1);
                compare(out, dg, &what("binary_matrix_from_records + from_records"), lib, build_ref::<P>(&pure, &bin), false);
            }
            Query::NewBinary { a, b, with_binary } => {
                let pure = vec![env.uni.pure[*a].clone(), env.uni.pure[*b].clone()];
                let recs: Result<Vec<PureRecord<P::Pure>>, _> = pure.iter().map(|v| serde_json::from_value(v.clone())).collect();
                let Ok(recs) = recs else { continue };
                let br = env.uni.binary.iter().find(|r| (r.0 == *a && r.1 == *b) || (r.0 == *b && r.1 == *a)).map(|r| r.2.clone());
                let br = if *with_binary { br } else { None };
                let brec: Option<P::Binary> = br.as_ref().filter(|v| !v.is_null()).and_then(|v| serde_json::from_value(v.clone()).ok());
                let used = brec.is_some();
                let lib = P::new_binary(recs, brec).map_err(|e| e.to_string());
                let bin = used.then(|| vec![vec![Value::Null, br.clone().unwrap()], vec![br.clone().unwrap(), Value::Null]]);
                out.count("op.new_binary", 1);
                compare(out, dg, &what("new_binary"), lib, build_ref::<P>(&pure, &bin), false);
            }
            Query::Subset { subs, pick } => {
                let pure: Vec<Value> = subs.iter().map(|&k| env.uni.pure[k].clone()).collect();
                let n = subs.len();
                let full = |list: &[usize]| -> Option<Vec<Vec<Value>>> {
                    if env.uni.binary.is_empty() {
                        return None;
                    }
                    let mut m = vec![vec![Value::Null; list.len()]; list.len()];
                    for (a, &i) in list.iter().enumerate() {
                        for (b, &j) in list.iter().enumerate() {
                            if let Some(r) = env.uni.binary.iter().find(|r| (r.0 == i && r.1 == j) || (r.0 == j && r.1 == i)) {
                                m[a][b] = r.2.clone();
                            }
                        }
                    }
                    Some(m)
                };
                let Ok(whole) = build_ref::<P>(&pure, &full(subs)) else { continue };
                let pick: Vec<usize> = pick.iter().map(|p| p % n).collect();
                let mut uniq = pick.clone();
                uniq.sort();
                uniq.dedup();
                if uniq.len() != pick.len() {
                    continue;
                }
                let lib = std::panic::catch_unwind(std::panic::AssertUnwindSafe(|| whole.subset(&pick))).map_err(|_| take_last_panic().unwrap_or_default());
                let picked: Vec<usize> = pick.iter().map(|&p| subs[p]).collect();
                let ppure: Vec<Value> = picked.iter().map(|&k| env.uni.pure[k].clone()).collect();
                out.count("op.subset", 1);
                // a subset of the subset (positions reversed, one dropped): component lists that are not
                // contiguous in the original, records() of an object that is itself a subset
                let second = match (&lib, pick.len() >= 2) {
                    (Ok(first), true) => {
                        let mut pick2: Vec<usize> = (0..pick.len()).rev().collect();
                        if pick2.len() > 2 {
                            pick2.pop();
                        }
                        let lib2 = std::panic::catch_unwind(std::panic::AssertUnwindSafe(|| first.subset(&pick2))).map_err(|_| take_last_panic().unwrap_or_default());
                        let picked2: Vec<usize> = pick2.iter().map(|&p| picked[p]).collect();
                        Some((lib2, picked2))
                    }
                    _ => None,
                };
                compare(out, dg, &what("subset"), lib, build_ref::<P>(&ppure, &full(&picked)), false);
                if let Some((lib2, picked2)) = second {
                    let ppure2: Vec<Value> = picked2.iter().map(|&k| env.uni.pure[k].clone()).collect();
                    out.count("op.subset_of_subset", 1);
                    compare(out, dg, &what("subset of subset"), lib2, build_ref::<P>(&ppure2, &full(&picked2)), false);
                }
            }
            Query::RoundTrip { subs } => {
                for &k in subs {
                    let v = &env.uni.pure[k];
                    let Ok(r) = serde_json::from_value::<PureRecord<P::Pure>>(v.clone()) else { continue };
                    let text = serde_json::to_string(&r).unwrap();
                    out.count("op.round_trip", 1);
                    out.count("oracle.compared", 1);
                    // every non-default field of the source record must be in the serialised record
                    if let Some(missing) = json_missing(v, &serde_json::from_str::<Value>(&text).unwrap_or(Value::Null)) {
                        out.violate("round-trip-field-lost", "roundtrip", format!("{}: field {missing} of the record is lost or changed by serialisation: {v} -> {text}", what("serde")));
                    }
                    match serde_json::from_str::<PureRecord<P::Pure>>(&text) {
                        Err(e) => out.violate("round-trip-unreadable", "roundtrip", format!("{}: serialised record cannot be read back: {e}: {text}", what("serde"))),
                        Ok(r2) => {
                            let (b1, b2) = (P::new_pure(r).map(|p| p.behave()), P::new_pure(r2).map(|p| p.behave()));
                            if let (Ok(b1), Ok(b2)) = (b1, b2) {
                                let d = same(&b1, &b2, 0.0);
                                out.max("round_trip_dev", d);
                                if !(d <= 1e-12) {
                                    out.violate("round-trip-behaviour", "roundtrip", format!("{}: behaviour changed by the round trip: {b1:?} vs {b2:?} ({text})", what("serde")));
                                }
                            }
                        }
                    }
                }
                // the records in the context of a mixture: what a parameter means can depend on its partners
                // (cross-association, combining rules), so the re-read records must also build the same mixture
                if subs.len() >= 2 {
                    let recs: Vec<PureRecord<P::Pure>> = subs.iter().filter_map(|&k| serde_json::from_value(env.uni.pure[k].clone()).ok()).collect();
                    let again: Vec<PureRecord<P::Pure>> = recs.iter().filter_map(|r| serde_json::from_str(&serde_json::to_string(r).unwrap()).ok()).collect();
                    if recs.len() == subs.len() && again.len() == subs.len() {
                        out.count("op.round_trip_mixture", 1);
                        if let (Ok(p1), Ok(p2)) = (P::from_records(recs, None), P::from_records(again, None)) {
                            let (b1, b2) = (p1.behave(), p2.behave());
                            let d = same(&b1, &b2, 0.0);
                            out.max("round_trip_dev", d);
                            if !(d <= 1e-12) {
                                out.violate("round-trip-behaviour", "roundtrip", format!("{}: behaviour of the mixture {subs:?} changed by the round trip of its pure records: {b1:?} vs {b2:?}", what("serde")));
                            }
                        }
                    }
                }
                // binary records
                for (i, j, m) in &env.uni.binary {
                    if !subs.contains(i) || !subs.contains(j) || m.is_null() {
                        continue;
                    }
                    let Ok(b) = serde_json::from_value::<P::Binary>(m.clone()) else { continue };
                    let text = serde_json::to_string(&b).unwrap();
                    if let Some(missing) = json_missing(m, &serde_json::from_str::<Value>(&text).unwrap_or(Value::Null)) {
                        out.violate("round-trip-field-lost", "roundtrip", format!("{}: field {missing} of the binary record is lost or changed by serialisation: {m} -> {text}", what("serde")));
                    }
                    let pure = vec![env.uni.pure[*i].clone(), env.uni.pure[*j].clone()];
                    let recs: Vec<PureRecord<P::Pure>> = pure.iter().filter_map(|v| serde_json::from_value(v.clone()).ok()).collect();
                    if recs.len() != 2 {
                        continue;
                    }
                    out.count("op.round_trip", 1);
                    out.count("oracle.compared", 1);
                    match serde_json::from_str::<P::Binary>(&text) {
                        Err(e) => out.violate("round-trip-unreadable", "roundtrip", format!("{}: serialised binary record cannot be read back: {e}: {text}", what("serde"))),
                        Ok(b2) => {
                            let (p1, p2) = (P::new_binary(recs.clone(), Some(b)), P::new_binary(recs, Some(b2)));
                            if let (Ok(p1), Ok(p2)) = (p1, p2) {
                                let (b1, b2) = (p1.behave(), p2.behave());
                                let d = same(&b1, &b2, 0.0);
                                out.max("round_trip_dev", d);
                                if !(d <= 1e-12) {
                                    out.violate("round-trip-behaviour", "roundtrip", format!("{}: behaviour changed by the round trip of a binary record: {b1:?} vs {b2:?} ({text})", what("serde")));
                                }
                            }
                        }
                    }
                }
            }
            Query::Segments { .. } | Query::Hetero { .. } => {}
        }
    }
}

/// first path of `src` whose (non-default) value is missing from or different in `ser`
fn json_missing(src: &Value, ser: &Value) -> Option<String> {
    fn is_default(v: &Value) -> bool {
        match v {
            Value::Null => true,
            Value::Number(n) => n.as_f64() == Some(0.0),
            Value::Array(a) => a.iter().all(is_default),
            Value::Object(o) => o.values().all(is_default),
            _ => false,
        }
    }
    match (src, ser) {
        (Value::Object(a), Value::Object(b)) => {
            for (k, x) in a {
                if is_default(x) {
                    continue;
                }
                match b.get(k) {
                    None => return Some(k.clone()),
                    Some(y) => {
                        if let Some(p) = json_missing(x, y) {
                            return Some(format!("{k}.{p}"));
                        }
                    }
                }
            }
            None
        }
        (Value::Array(a), Value::Array(b)) => {
            if a.len() != b.len() {
                return Some("[len]".into());
            }
            a.iter().zip(b).enumerate().find_map(|(i, (x, y))| json_missing(x, y).map(|p| format!("[{i}].{p}")))
        }
        (Value::Number(x), Value::Number(y)) => (x.as_f64() != y.as_f64()).then(|| "value".to_string()),
        (x, y) => (x != y).then(|| "value".to_string()),
    }
}

fn binary_file_value(uni: &Universe) -> Value {
    Value::Array(
        uni.binary_order
            .iter()
            .map(|(k, flip)| {
                let (i, j, m) = &uni.binary[*k];
                let (a, b) = if *flip { (j, i) } else { (i, j) };
                json!({"id1": uni.pure[*a]["identifier"], "id2": uni.pure[*b]["identifier"], "model_record": m})
            })
            .collect(),
    )
}

// ------------------------------------------------------------------ group contribution

fn seg_counts(mol: &Value) -> Vec<(String, f64)> {
    let mut v: Vec<(String, f64)> = Vec::new();
    for s in mol["segments"].as_array().unwrap() {
        let s = s.as_str().unwrap().to_string();
        match v.iter_mut().find(|x| x.0 == s) {
            Some(x) => x.1 += 1.0,
            None => v.push((s, 1.0)),
        }
    }
    v
}

/// What the group-contribution files on the (possibly damaged) disk say.
struct GcData {
    molecules: Vec<Value>,
    segments: Vec<Value>,
    seg_binary: Vec<(String, String, f64)>,
}

fn load_gc(env: &Env, segfile: &str, with_binary: bool) -> Result<GcData, String> {
    let molecules = read_value(&env.disk.path("molecules.json"))?.as_array().cloned().ok_or("molecules: not a list")?;
    let segments = read_value(&env.disk.path(segfile))?.as_array().cloned().ok_or("segments: not a list")?;
    let mut seg_binary = Vec::new();
    if with_binary {
        for r in read_value(&env.disk.path("seg_binary.json"))?.as_array().ok_or("segment binary: not a list")? {
            seg_binary.push((
                r["id1"].as_str().ok_or("id1")?.to_string(),
                r["id2"].as_str().ok_or("id2")?.to_string(),
                r["model_record"].as_f64().ok_or("model_record")?,
            ));
        }
    }
    // every record has to be well formed, as the library parses whole files
    for m in &molecules {
        serde_json::from_value::<ChemicalRecord>(m.clone()).map_err(|e| format!("chemical record: {e}"))?;
    }
    Ok(GcData { molecules, segments, seg_binary })
}

fn run_segments(env: &Env, out: &mut RunOutcome, dg: &mut Digest) {
    let uni = env.uni;
    let kind = env.sc.id_kind;
    let opt = id_option(kind);
    for (qi, q) in env.sc.queries.iter().enumerate() {
        let (segfile, wb) = match q {
            Query::Segments { with_binary, joback, .. } => ("segments.json", *with_binary && !*joback),
            Query::Hetero { with_binary, .. } => ("gc_segments.json", *with_binary),
            _ => continue,
        };
        // reference data = what the bytes on disk say now
        let gc = load_gc(env, segfile, wb);
        let mol_names: Vec<String> = match q {
            Query::Segments { mols, .. } | Query::Hetero { mols, .. } => mols.iter().map(|&k| ident_full(k)[ID_KINDS[kind]].as_str().unwrap().to_string()).collect(),
            _ => vec![],
        };
        // resolve the queried molecules and their segments in the on-disk data
        let resolved: Result<(GcData, Vec<Value>), String> = gc.and_then(|gc| {
            let mut mv = Vec::new();
            for n in &mol_names {
                if gc.molecules.iter().filter(|m| id_of(m, kind).as_deref() == Some(n.as_str())).count() > 1 {
                    return Err("ambiguous: two chemical records with the same identifier".into());
                }
                let m = gc.molecules.iter().find(|m| id_of(m, kind).as_deref() == Some(n.as_str())).ok_or(format!("molecule {n} not found"))?.clone();
                for s in m["segments"].as_array().ok_or("segments")? {
                    let s = s.as_str().ok_or("segment name")?;
                    if gc.segments.iter().filter(|r| r["identifier"] == s).count() > 1 {
                        return Err("ambiguous: two segment records with the same identifier".into());
                    }
                    let r = gc.segments.iter().find(|r| r["identifier"] == s).ok_or(format!("segment {s} not found"))?;
                    let needed: &[&str] = if matches!(q, Query::Segments { joback: true, .. }) { &["a", "b", "c", "d", "e"] } else { &["m", "sigma", "epsilon_k"] };
                    for key in needed {
                        r["model_record"][*key].as_f64().ok_or(format!("segment {s}: {key}"))?;
                    }
                    r["molarweight"].as_f64().ok_or(format!("segment {s}: molarweight"))?;
                }
                mv.push(m);
            }
            Ok((gc, mv))
        });
        let (gc, molv) = match resolved {
            Ok(x) => x,
            Err(e) if e.starts_with("ambiguous") => {
                // damage produced two records with one lookup identifier: which one wins is
                // not specified by the property
                out.count("window.ambiguous_duplicate_identifier_after_damage", 1);
                continue;
            }
            Err(e) => {
                // the reference cannot answer: the library must not answer either
                let names_ref: Vec<&str> = mol_names.iter().map(|s| s.as_str()).collect();
                let b = wb.then(|| env.disk.path("seg_binary.json"));
                out.count("oracle.compared", 1);
                let accepted = match q {
                    Query::Segments { joback: true, .. } => Joback::from_json_segments(&names_ref, env.disk.path("molecules.json"), env.disk.path(segfile), None, opt).is_ok(),
                    Query::Segments { .. } => PcSaftParameters::from_json_segments(&names_ref, env.disk.path("molecules.json"), env.disk.path(segfile), b, opt).is_ok(),
                    _ => GcPcSaftEosParameters::from_json_segments(&names_ref, env.disk.path("molecules.json"), env.disk.path(segfile), b, opt).is_ok(),
                };
                if accepted {
                    out.violate("accepted-damaged-input", "accepted", format!("group contribution query {qi} {q:?}: library returned parameters although the reference loader fails: {e}"));
                } else {
                    out.count("probe.both_err", 1);
                }
                continue;
            }
        };
        let seg = |name: &str| gc.segments.iter().find(|s| s["identifier"] == name).unwrap();
        let molecule = |c: usize| &molv[c];
        match q {
            Query::Segments { mols, with_binary, joback } => {
                out.steps += 1;
                let names = mol_names.clone();
                let names_ref: Vec<&str> = names.iter().map(|s| s.as_str()).collect();
                let b = with_binary.then(|| env.disk.path("seg_binary.json"));
                let what = format!("group contribution query {qi} {:?} (id kind {})", q, ID_KINDS[kind]);
                if *joback {
                    out.count("op.from_json_segments_joback", 1);
                    let mut results = Vec::new();
                    for _ in 0..3 {
                        results.push(Joback::from_json_segments(&names_ref, env.disk.path("molecules.json"), env.disk.path("segments.json"), None, opt).map_err(|e| e.to_string()));
                    }
                    let reference: Vec<Vec<f64>> = (0..mols.len())
                        .map(|k| {
                            let mut c = [-37.93, 0.21, -3.91e-4, 2.06e-7, 0.0];
                            // magnitude of the summed terms: the offsets cancel against the group
                            // contributions, so deviations are judged relative to the terms
                            let mut sc = [37.93, 0.21, 3.91e-4, 2.06e-7, 0.0];
                            let mut mw = 0.0;
                            for (s, n) in seg_counts(molecule(k)) {
                                let r = seg(&s);
                                for ((x, y), key) in c.iter_mut().zip(sc.iter_mut()).zip(["a", "b", "c", "d", "e"]) {
                                    let t = r["model_record"][key].as_f64().unwrap_or(f64::NAN) * n;
                                    *x += t;
                                    *y += t.abs();
                                }
                                mw += r["molarweight"].as_f64().unwrap() * n;
                            }
                            let mut v = c.to_vec();
                            v.push(mw);
                            v.extend(sc);
                            v.push(mw);
                            v
                        })
                        .collect();
                    out.count("oracle.compared", 1);
                    for r in results {
                        match r {
                            Ok(p) => {
                                let (pure, _) = p.records();
                                for (i, rec) in pure.iter().enumerate() {
                                    let v = serde_json::to_value(rec).unwrap();
                                    let got: Vec<f64> = ["a", "b", "c", "d", "e"].iter().map(|k| v["model_record"][*k].as_f64().unwrap_or(f64::NAN)).chain([v["molarweight"].as_f64().unwrap_or(f64::NAN)]).collect();
                                    let d = (0..6).map(|q| (got[q] - reference[i][q]).abs() / (reference[i][6 + q].abs() + 1e-300)).fold(0.0, f64::max);
                                    let d = if got.iter().any(|x| x.is_nan()) { f64::INFINITY } else { d };
                                    out.max("segments_dev", d);
                                    dg.f64((got[1] * 1e9).round());
                                    if !(d <= 1e-12) || id_of(&v, kind).as_deref() != Some(names[i].as_str()) {
                                        out.violate("segments-mismatch", "segments", format!("{what}: component {i} is {v}, combining rules give {:?}", &reference[i][..6]));
                                    }
                                }
                            }
                            Err(e) => {
                                if !env.faulted {
                                    out.violate("rejected-valid-query", "rejected", format!("{what}: {e}"));
                                }
                            }
                        }
                    }
                    continue;
                }
                out.count("op.from_json_segments_pcsaft", 1);
                // reference by the documented combining rules
                let reference: Vec<[f64; 4]> = (0..mols.len())
                    .map(|k| {
                        let (mut m, mut s3, mut e, mut mw) = (0.0, 0.0, 0.0, 0.0);
                        for (s, n) in seg_counts(molecule(k)) {
                            let r = seg(&s);
                            let (mi, si, ei) = (r["model_record"]["m"].as_f64().unwrap(), r["model_record"]["sigma"].as_f64().unwrap(), r["model_record"]["epsilon_k"].as_f64().unwrap());
                            m += mi * n;
                            s3 += mi * si.powi(3) * n;
                            e += mi * ei * n;
                            mw += r["molarweight"].as_f64().unwrap() * n;
                        }
                        [m, (s3 / m).cbrt(), e / m, mw]
                    })
                    .collect();
                let kij_ref = |a: usize, b: usize| -> f64 {
                    let (mut num, mut den) = (0.0, 0.0);
                    for (s, n1) in seg_counts(molecule(a)) {
                        for (t, n2) in seg_counts(molecule(b)) {
                            // direct orientation first, then the reverse one
                            let k = gc
                                .seg_binary
                                .iter()
                                .rev()
                                .find(|r| r.0 == s && r.1 == t)
                                .or_else(|| gc.seg_binary.iter().rev().find(|r| r.0 == t && r.1 == s))
                                .map_or(0.0, |r| r.2);
                            num += k * n1 * n2;
                            den += n1 * n2;
                        }
                    }
                    num / den
                };
                // repeated under different hash seeds (every HashMap gets fresh keys)
                let mut behaviours: Vec<Vec<f64>> = Vec::new();
                out.count("oracle.compared", 1);
                for rep in 0..3 {
                    let lib = PcSaftParameters::from_json_segments(&names_ref, env.disk.path("molecules.json"), env.disk.path("segments.json"), b.clone(), opt);
                    match lib {
                        Ok(p) => {
                            let n = mols.len();
                            for i in 0..n {
                                let got = [p.m[i], p.sigma[i], p.epsilon_k[i], p.molarweight[i]];
                                let d = same(&got, &reference[i], 0.0);
                                out.max("segments_dev", d);
                                if rep == 0 {
                                    dg.f64((got[0] * 1e9).round());
                                }
                                let idv = serde_json::to_value(&p.pure_records[i].identifier).unwrap();
                                if !(d <= 1e-12) || idv.get(ID_KINDS[kind]).and_then(|s| s.as_str()) != Some(names[i].as_str()) {
                                    out.violate("segments-mismatch", "segments", format!("{what}: component {i} has (m, sigma, epsilon_k, mw) = {got:?} id {idv}, combining rules give {:?} for {}", reference[i], names[i]));
                                }
                                for j in 0..n {
                                    if i != j {
                                        let k_lib = p.binary_records.as_ref().map_or(0.0, |b| b[(i, j)].k_ij);
                                        // the matrix is symmetric by construction: the pair is looked up once, for i < j
                                        let k_ref = kij_ref(i.min(j), i.max(j));
                                        let d = (k_lib - k_ref).abs() / (1.0 + 10.0 * k_ref.abs());
                                        out.max("segments_kij_abs_dev", d);
                                        if !(d <= 1e-13) {
                                            out.violate("segments-kij-mismatch", "segments-kij", format!("{what}: k_ij[{i},{j}] = {k_lib}, count-weighted average of the segment records gives {k_ref}"));
                                        }
                                    }
                                }
                            }
                            behaviours.push(p.behave());
                        }
                        Err(e) => {
                            if !env.faulted {
                                out.violate("rejected-valid-query", "rejected", format!("{what}: {e}"));
                            }
                        }
                    }
                }
                for w in behaviours.windows(2) {
                    let d = same(&w[0], &w[1], 0.0);
                    out.max("hash_order_dev", d);
                    if d > 0.0 {
                        out.count("probe.hash_order_changed_last_bits", 1);
                    }
                    if !(d <= 1e-12) {
                        out.violate("hash-order-dependence", "hash-order", format!("{what}: two identical calls behave differently: {:?} vs {:?}", w[0], w[1]));
                    }
                }
            }
            Query::Hetero { mols, with_binary } => {
                out.steps += 1;
                out.count("op.from_json_segments_hetero", 1);
                let names: Vec<String> = mol_names.clone();
                let names_ref: Vec<&str> = names.iter().map(|s| s.as_str()).collect();
                let what = format!("heterosegmented query {qi} {:?} (id kind {})", q, ID_KINDS[kind]);
                let behave = |p: GcPcSaftEosParameters| -> Vec<f64> {
                    let n = p.chemical_records.len();
                    let mw = p.molarweight.to_vec();
                    let msum: Vec<f64> = (0..n).map(|c| p.m.iter().zip(p.component_index.iter()).filter(|(_, ci)| **ci == c).map(|(m, _)| *m).sum()).collect();
                    let nb: f64 = p.bonds.values().sum();
                    let eos = GcPcSaft::new(Arc::new(p));
                    let s = state(n);
                    let mut v = vec![eos.residual_helmholtz_energy(&s), eos.compute_max_density(&s.moles), nb];
                    v.extend(mw);
                    v.extend(msum);
                    v
                };
                // variants: canonical files, permuted files (segment lists re-ordered with re-indexed bonds,
                // flipped binary orientation, other file order), all repeated under fresh hash seeds
                let b1 = with_binary.then(|| env.disk.path("seg_binary.json"));
                let b2 = with_binary.then(|| env.disk.path("seg_binary_alt.json"));
                let mut runs = vec![
                    ("molecules.json", "gc_segments.json", b1.clone()),
                    ("molecules.json", "gc_segments.json", b1),
                ];
                if !env.faulted {
                    // the permuted collection is only equivalent while nothing is damaged
                    runs.push(("molecules_alt.json", "gc_segments_alt.json", b2));
                    // serde round trip of ChemicalRecord, SegmentRecord and BinaryRecord<String, f64>:
                    // the re-written collection must give a model with identical behaviour
                    let rt = (|| -> Result<(), String> {
                        let mols: Vec<ChemicalRecord> = serde_json::from_value(read_value(&env.disk.path("molecules.json"))?).map_err(|e| e.to_string())?;
                        std::fs::write(env.disk.path("molecules_rt.json"), serde_json::to_string(&mols).map_err(|e| e.to_string())?).map_err(|e| e.to_string())?;
                        let segs: Vec<SegmentRecord<feos::gc_pcsaft::GcPcSaftRecord>> = serde_json::from_value(read_value(&env.disk.path("gc_segments.json"))?).map_err(|e| e.to_string())?;
                        std::fs::write(env.disk.path("gc_segments_rt.json"), serde_json::to_string(&segs).map_err(|e| e.to_string())?).map_err(|e| e.to_string())?;
                        let bins: Vec<BinaryRecord<String, f64>> = serde_json::from_value(read_value(&env.disk.path("seg_binary.json"))?).map_err(|e| e.to_string())?;
                        std::fs::write(env.disk.path("seg_binary_rt.json"), serde_json::to_string(&bins).map_err(|e| e.to_string())?).map_err(|e| e.to_string())?;
                        Ok(())
                    })();
                    match rt {
                        Ok(()) => {
                            out.count("op.round_trip_gc_records", 1);
                            runs.push(("molecules_rt.json", "gc_segments_rt.json", with_binary.then(|| env.disk.path("seg_binary_rt.json"))));
                        }
                        Err(e) => out.violate("round-trip-unreadable", "roundtrip", format!("{what}: group-contribution records cannot be serialised and read back: {e}")),
                    }
                }
                let mut behaviours = Vec::new();
                // the same collection through the parameters of the Helmholtz energy functional
                // (every segment instance is kept, bonds form a graph)
                let behave_func = |p: GcPcSaftFunctionalParameters| -> Vec<f64> {
                    let n = p.chemical_records.len();
                    let mw = p.molarweight.to_vec();
                    let msum: Vec<f64> = (0..n).map(|c| p.m.iter().zip(p.component_index.iter()).filter(|(_, ci)| **ci == c).map(|(m, _)| *m).sum()).collect();
                    let nb = p.bonds.edge_count() as f64;
                    let func = GcPcSaftFunctional::new(Arc::new(p));
                    let s = state(n);
                    let mut v = vec![func.residual_helmholtz_energy(&s), func.compute_max_density(&s.moles), nb];
                    v.extend(mw);
                    v.extend(msum);
                    v
                };
                let mut behaviours_func = Vec::new();
                out.count("oracle.compared", 1);
                for (mf, sf, bf) in runs {
                    match GcPcSaftEosParameters::from_json_segments(&names_ref, env.disk.path(mf), env.disk.path(sf), bf.clone(), opt) {
                        Ok(p) => behaviours.push(behave(p)),
                        Err(e) => {
                            if !env.faulted {
                                out.violate("rejected-valid-query", "rejected", format!("{what}: {e}"));
                            }
                        }
                    }
                    match GcPcSaftFunctionalParameters::from_json_segments(&names_ref, env.disk.path(mf), env.disk.path(sf), bf, opt) {
                        Ok(p) => behaviours_func.push(behave_func(p)),
                        Err(e) => {
                            if !env.faulted {
                                out.violate("rejected-valid-query", "rejected", format!("{what} (functional parameters): {e}"));
                            }
                        }
                    }
                }
                if let Some(b) = behaviours_func.first() {
                    let n = mols.len();
                    for c in 0..n {
                        let (mut mw, mut m) = (0.0, 0.0);
                        for (s, cnt) in seg_counts(molecule(c)) {
                            let r = seg(&s);
                            mw += r["molarweight"].as_f64().unwrap() * cnt;
                            m += r["model_record"]["m"].as_f64().unwrap() * cnt;
                        }
                        let d = deviation(b[3 + c], mw, 1e-300).max(deviation(b[3 + n + c], m, 1e-300));
                        out.max("hetero_sum_dev", d);
                        if !(d <= 1e-12) {
                            out.violate("segments-mismatch", "hetero-sums", format!("{what} (functional parameters): component {c}: molar weight {} / chain length {}, segment sums give {mw} / {m}", b[3 + c], b[3 + n + c]));
                        }
                    }
                }
                for w in behaviours_func.windows(2) {
                    let d = same(&w[0], &w[1], 0.0);
                    out.max("hetero_order_dev", d);
                    if !(d <= 1e-11) {
                        out.violate("order-dependence", "hetero-order", format!("{what} (functional parameters): behaviour depends on segment order / file order / record orientation / round trip: {:?} vs {:?}", w[0], w[1]));
                    }
                }
                // subset of a heterosegmented parameter set = the directly built set
                if !env.faulted && mols.len() >= 2 {
                    let b0 = with_binary.then(|| env.disk.path("seg_binary.json"));
                    let pick: Vec<usize> = (0..mols.len()).rev().take(mols.len() - 1).collect();
                    let pnames: Vec<&str> = pick.iter().map(|&i| names_ref[i]).collect();
                    let whole = GcPcSaftEosParameters::from_json_segments(&names_ref, env.disk.path("molecules.json"), env.disk.path("gc_segments.json"), b0.clone(), opt);
                    let direct = GcPcSaftEosParameters::from_json_segments(&pnames, env.disk.path("molecules.json"), env.disk.path("gc_segments.json"), b0, opt);
                    if let (Ok(whole), Ok(direct)) = (whole, direct) {
                        let (bs, bd) = (behave(whole.subset(&pick)), behave(direct));
                        let d = same(&bs, &bd, 0.0);
                        out.max("hetero_subset_dev", d);
                        out.count("op.hetero_subset", 1);
                        out.count("oracle.compared", 1);
                        if !(d <= 1e-11) {
                            out.violate("records-mismatch", "hetero-subset", format!("{what}: subset {pick:?} behaves differently from the directly built parameter set: {bs:?} vs {bd:?}"));
                        }
                    }
                }
                if let Some(b) = behaviours.first() {
                    dg.f64((b[0] * 1e6).round());
                    // independent sums: molar weight and chain length per component, number of bonds
                    for c in 0..mols.len() {
                        let (mut mw, mut m) = (0.0, 0.0);
                        for (s, n) in seg_counts(molecule(c)) {
                            let r = seg(&s);
                            mw += r["molarweight"].as_f64().unwrap() * n;
                            m += r["model_record"]["m"].as_f64().unwrap() * n;
                        }
                        let n = mols.len();
                        let d = deviation(b[3 + c], mw, 1e-300).max(deviation(b[3 + n + c], m, 1e-300));
                        out.max("hetero_sum_dev", d);
                        if !(d <= 1e-12) {
                            out.violate("segments-mismatch", "hetero-sums", format!("{what}: component {c}: molar weight {} / chain length {}, segment sums give {mw} / {m}", b[3 + c], b[3 + n + c]));
                        }
                    }
                    // documented default: without explicit bonds the segments form a linear chain
                    let nbonds: f64 = (0..mols.len())
                        .map(|c| {
                            let m = molecule(c);
                            m["bonds"].as_array().map_or_else(|| m["segments"].as_array().map_or(0, |s| s.len().saturating_sub(1)), |b| b.len()) as f64
                        })
                        .sum();
                    if (b[2] - nbonds).abs() > 1e-9 {
                        out.violate("segments-mismatch", "hetero-bonds", format!("{what}: {} bonds counted, chemical records contain {nbonds}", b[2]));
                    }
                }
                for w in behaviours.windows(2) {
                    let d = same(&w[0], &w[1], 0.0);
                    out.max("hetero_order_dev", d);
                    if !(d <= 1e-11) {
                        out.violate("order-dependence", "hetero-order", format!("{what}: behaviour depends on segment order / file order / record orientation / hash order: {:?} vs {:?}", w[0], w[1]));
                    }
                }
            }
            _ => {}
        }
    }
}

// ------------------------------------------------------------------ execution

fn execute(sc: &Scenario) -> RunOutcome {
    let mut out = RunOutcome::default();
    let mut dg = Digest::default();
    let uni = universe(sc);
    let disk = Disk::new(mix(sc.universe ^ entropy_requests().wrapping_mul(31) ^ (sc.model as u64) << 56));
    // ---- write the collection
    let n_files = 1 + (sc.universe % 3) as usize;
    let pure_files: Vec<String> = (0..n_files).map(|i| format!("pure{i}.json")).collect();
    for (fi, f) in pure_files.iter().enumerate() {
        let list: Vec<Value> = uni.pure_order.iter().enumerate().filter(|(pos, _)| pos % n_files == fi).map(|(_, &k)| uni.pure[k].clone()).collect();
        disk.write(f, &Value::Array(list));
    }
    let binary_file = has_binary(sc.model).then(|| {
        disk.write("binary.json", &binary_file_value(&uni));
        "binary.json".to_string()
    });
    // group contribution files
    let molfile = |order: &[usize], permute: bool, rng: &mut Rng| -> Value {
        Value::Array(
            order
                .iter()
                .map(|&k| {
                    let m = &uni.molecules[k];
                    if !permute {
                        return m.clone();
                    }
                    let segs: Vec<String> = m["segments"].as_array().unwrap().iter().map(|s| s.as_str().unwrap().to_string()).collect();
                    let mut perm: Vec<usize> = (0..segs.len()).collect();
                    rng.shuffle(&mut perm);
                    // new position p holds old segment perm[p]
                    let inv: Vec<usize> = (0..segs.len()).map(|old| perm.iter().position(|x| *x == old).unwrap()).collect();
                    let nsegs: Vec<&String> = perm.iter().map(|&o| &segs[o]).collect();
                    let bonds: Vec<[usize; 2]> = m["bonds"]
                        .as_array()
                        .unwrap()
                        .iter()
                        .map(|b| {
                            let (x, y) = (inv[b[0].as_u64().unwrap() as usize], inv[b[1].as_u64().unwrap() as usize]);
                            // a bond is an unordered pair
                            if rng.chance(0.5) { [x, y] } else { [y, x] }
                        })
                        .collect();
                    json!({"identifier": m["identifier"], "segments": nsegs, "bonds": bonds})
                })
                .collect(),
        )
    };
    let mut prng = Rng::new(mix(sc.universe ^ 0x5E6));
    disk.write("molecules.json", &molfile(&uni.mol_order, false, &mut prng));
    let mut rev = uni.mol_order.clone();
    rev.reverse();
    disk.write("molecules_alt.json", &molfile(&rev, true, &mut prng));
    let segfile = |order: &[usize], gc: bool| -> Value {
        Value::Array(
            order
                .iter()
                .map(|&s| {
                    let r = &uni.segments[s];
                    if gc {
                        json!({"identifier": r["identifier"], "molarweight": r["molarweight"], "model_record": {"m": r["model_record"]["m"], "sigma": r["model_record"]["sigma"], "epsilon_k": r["model_record"]["epsilon_k"]}})
                    } else {
                        r.clone()
                    }
                })
                .collect(),
        )
    };
    disk.write("segments.json", &segfile(&uni.seg_order, false));
    disk.write("gc_segments.json", &segfile(&uni.seg_order, true));
    let mut srev = uni.seg_order.clone();
    srev.reverse();
    disk.write("gc_segments_alt.json", &segfile(&srev, true));
    let sbfile = |flip_all: bool| -> Value {
        let mut v: Vec<Value> = uni
            .seg_binary_order
            .iter()
            .map(|(k, flip)| {
                let (a, b, x) = uni.seg_binary[*k];
                let (a, b) = if *flip != flip_all { (b, a) } else { (a, b) };
                json!({"id1": format!("SEG{a}"), "id2": format!("SEG{b}"), "model_record": x})
            })
            .collect();
        if flip_all {
            v.reverse();
        }
        Value::Array(v)
    };
    disk.write("seg_binary.json", &sbfile(false));
    disk.write("seg_binary_alt.json", &sbfile(true));

    // ---- inject the fault into a file the queries need
    let uses_gc = sc.queries.iter().any(|q| matches!(q, Query::Segments { .. } | Query::Hetero { .. }));
    let mut targets: Vec<&str> = pure_files.iter().map(|s| s.as_str()).collect();
    if let Some(b) = &binary_file {
        targets.push(b);
    }
    if uses_gc {
        targets = vec!["molecules.json", "segments.json", "gc_segments.json", "seg_binary.json"];
    }
    if sc.fault == Fault::StaleBinary {
        if let Some(b) = &binary_file {
            // the binary file of another collection: same layout, foreign identifiers
            let mut other = sc.clone();
            other.universe = mix(sc.universe ^ 0xD15C);
            let ou = universe(&other);
            let mut v = binary_file_value(&ou);
            for r in v.as_array_mut().unwrap() {
                for k in ["id1", "id2"] {
                    for idk in ID_KINDS {
                        let s = format!("foreign {}", r[k][idk].as_str().unwrap_or(""));
                        r[k][idk] = json!(s);
                    }
                }
            }
            disk.write(b, &v);
            out.count("fault.stale_file_of_other_collection", 1);
        }
    }
    apply_fault(&disk, &targets, &sc.fault, &mut out);
    let faulted = sc.fault != Fault::None;
    out.note(format!("collection of model {} written ({} pure files); fault {:?} applied to one of {:?}", MODEL_NAMES[sc.model], pure_files.len(), sc.fault, targets));
    for (qi, q) in sc.queries.iter().enumerate() {
        out.note(format!("query {qi}: {q:?}"));
    }

    let env = Env { sc, uni: &uni, disk: &disk, pure_files, binary_file, faulted };
    match sc.model {
        0 => run_queries::<PcSaftParameters>(&env, &mut out, &mut dg),
        1 => run_queries::<SaftVRMieParameters>(&env, &mut out, &mut dg),
        2 => run_queries::<SaftVRQMieParameters>(&env, &mut out, &mut dg),
        3 => run_queries::<ElectrolytePcSaftParameters>(&env, &mut out, &mut dg),
        4 => run_queries::<PetsParameters>(&env, &mut out, &mut dg),
        5 => run_queries::<UVTheoryParameters>(&env, &mut out, &mut dg),
        6 => run_queries::<Joback>(&env, &mut out, &mut dg),
        7 => run_queries::<Dippr>(&env, &mut out, &mut dg),
        _ => run_queries::<PengRobinsonParameters>(&env, &mut out, &mut dg),
    }
    run_segments(&env, &mut out, &mut dg);
    out.count(&format!("model.{}", MODEL_NAMES[sc.model]), 1);
    out.count(&format!("id_kind.{}", ID_KINDS[sc.id_kind]), 1);
    out.count("sim.getrandom_requests", entropy_requests());
    out.digest = dg.0;
    out.nontrivial = out.counters.get("oracle.compared").copied().unwrap_or(0) >= 1;
    out
}

// ------------------------------------------------------------------ engine

pub struct C14 {
    pub faults: bool,
}

fn subset(rng: &mut Rng, n: usize, max: usize) -> Vec<usize> {
    let mut all: Vec<usize> = (0..n).collect();
    rng.shuffle(&mut all);
    let k = rng.range(1, max.min(n));
    all.truncate(k);
    all
}

impl Engine for C14 {
    type Scenario = Scenario;
    fn property(&self) -> &'static str {
        "C14"
    }
    fn name(&self) -> &'static str {
        if self.faults {
            "c14-loader-faults"
        } else {
            "c14-loader"
        }
    }
    fn generate(&self, seed: u64, tier: Tier) -> Scenario {
        let mut rng = Rng::new(seed);
        let model = rng.below(N_MODELS);
        let n_subs = rng.range(3, 9);
        let nq = match tier {
            Tier::Quick => rng.range(1, 5),
            Tier::Thorough => rng.range(2, 10),
        };
        let mut queries = Vec::new();
        for _ in 0..nq {
            let r = rng.below(if self.faults { 6 } else { 14 });
            queries.push(match r {
                0..=2 => Query::Json { subs: subset(&mut rng, n_subs, 4), split: rng.range(1, 3), with_binary: rng.chance(0.8) },
                3 => Query::Segments { mols: subset(&mut rng, n_subs, 3), with_binary: rng.chance(0.7), joback: rng.chance(0.3) },
                4 => Query::Hetero { mols: subset(&mut rng, n_subs, 3), with_binary: rng.chance(0.7) },
                5 => Query::Json { subs: subset(&mut rng, n_subs, 4), split: 1, with_binary: true },
                6 => Query::JsonDuplicate { subs: subset(&mut rng, n_subs, 3), dup: rng.below(8) },
                7 => Query::JsonMissing { subs: subset(&mut rng, n_subs, 3) },
                8 => Query::Records { subs: subset(&mut rng, n_subs, 4) },
                9 => {
                    let s = subset(&mut rng, n_subs, 2);
                    if s.len() == 2 {
                        Query::NewBinary { a: s[0], b: s[1], with_binary: rng.chance(0.7) }
                    } else {
                        Query::Records { subs: s }
                    }
                }
                10 => {
                    let s = subset(&mut rng, n_subs, 4);
                    let k = rng.range(1, s.len());
                    let pick = (0..k).map(|_| rng.below(8)).collect();
                    Query::Subset { subs: s, pick }
                }
                11 => Query::RoundTrip { subs: subset(&mut rng, n_subs, 4) },
                12 => Query::Segments { mols: subset(&mut rng, n_subs, 3), with_binary: rng.chance(0.7), joback: rng.chance(0.3) },
                _ => Query::Hetero { mols: subset(&mut rng, n_subs, 3), with_binary: rng.chance(0.7) },
            });
        }
        let fault = if self.faults {
            match rng.below(7) {
                0 => Fault::Truncate { file: rng.below(8), frac: rng.uniform(0.0, 1.0) },
                1 => Fault::Empty { file: rng.below(8) },
                2 => Fault::Missing { file: rng.below(8) },
                3 => Fault::Directory { file: rng.below(8) },
                4 => Fault::ByteFlip { file: rng.below(8), frac: rng.uniform(0.0, 1.0), byte: *rng.pick(b"0123456789 ,:{}[]\"aeE-.x\n") },
                5 => Fault::TrailingGarbage { file: rng.below(8) },
                _ => Fault::StaleBinary,
            }
        } else {
            Fault::None
        };
        Scenario { model, universe: rng.next(), n_subs, id_kind: rng.below(6), queries, fault }
    }
    fn execute(&self, sc: &Scenario) -> RunOutcome {
        // Under a disk fault the call may fail in any way (the property only forbids wrong
        // data): a panic on damaged input is counted, not judged. Without a fault a panic is
        // a rejected valid query and is reported by the driver.
        let mut o = match std::panic::catch_unwind(std::panic::AssertUnwindSafe(|| execute(sc))) {
            Ok(o) => o,
            Err(e) => {
                if sc.fault == Fault::None {
                    std::panic::resume_unwind(e);
                }
                let mut o = RunOutcome::default();
                let msg = take_last_panic().unwrap_or_default();
                o.count("probe.panicked_on_damaged_input", 1);
                let mut d = Digest::default();
                d.str(&msg);
                o.digest = d.0;
                o.nontrivial = true;
                o
            }
        };
        o.distinct.push(Digest::of_value(&serde_json::to_value(&sc.queries).unwrap()) ^ sc.model as u64);
        o
    }
    fn shrink(&self, sc: &Scenario) -> Vec<Scenario> {
        let mut v = Vec::new();
        for j in 0..sc.queries.len() {
            if sc.queries.len() > 1 {
                let mut t = sc.clone();
                t.queries.remove(j);
                v.push(t);
            }
        }
        for j in 0..sc.queries.len() {
            let shrink_list = |l: &Vec<usize>| -> Vec<Vec<usize>> { (0..l.len()).filter(|_| l.len() > 1).map(|k| { let mut x = l.clone(); x.remove(k); x }).collect() };
            let alts: Vec<Query> = match &sc.queries[j] {
                Query::Json { subs, split, with_binary } => shrink_list(subs).into_iter().map(|s| Query::Json { subs: s, split: *split, with_binary: *with_binary }).collect(),
                Query::Records { subs } => shrink_list(subs).into_iter().map(|s| Query::Records { subs: s }).collect(),
                Query::RoundTrip { subs } => shrink_list(subs).into_iter().map(|s| Query::RoundTrip { subs: s }).collect(),
                Query::Segments { mols, with_binary, joback } => shrink_list(mols).into_iter().map(|s| Query::Segments { mols: s, with_binary: *with_binary, joback: *joback }).collect(),
                Query::Hetero { mols, with_binary } => shrink_list(mols).into_iter().map(|s| Query::Hetero { mols: s, with_binary: *with_binary }).collect(),
                _ => vec![],
            };
            for a in alts {
                let mut t = sc.clone();
                t.queries[j] = a;
                v.push(t);
            }
        }
        if sc.fault != Fault::None {
            let mut t = sc.clone();
            t.fault = Fault::None;
            v.push(t);
        }
        if sc.id_kind != 1 {
            let mut t = sc.clone();
            t.id_kind = 1;
            v.push(t);
        }
        v
    }
    fn rule(&self) -> String {
        "one case = a generated record collection with unique values for one of 9 models (PC-SAFT incl. polar/association/entropy-scaling fields and association binary overrides, SAFT-VR Mie, SAFT-VRQ Mie, ePC-SAFT, PeTS, uv-theory, Joback, DIPPR, Peng-Robinson) written to a scratch directory in seeded file order, split over 1..3 pure files, binary records in seeded orientation, plus segment / chemical-record / segment-binary files; 1..10 queries (from_json, from_multiple_json, duplicate and missing substances, binary_matrix_from_records + from_records, new_binary, subset, serde round trips, from_json_segments for PC-SAFT and Joback, heterosegmented gc-PC-SAFT with permuted segment lists and re-indexed bonds) for one of the six identifier kinds; in the fault configuration one disk fault (torn/truncated file, empty file, missing file, directory in place of the file, corrupted byte, trailing garbage, stale binary file of another collection) is injected into a file the queries read. Hash iteration order is a function of the run's entropy seed and group-contribution constructions are repeated under fresh hash keys. distinct = distinct (model, query list); non-trivial = at least one query judged.".into()
    }
    fn components(&self) -> Value {
        json!({
            "real": ["feos-core parameter module (Parameter, ParameterHetero, PureRecord::from_json, binary_matrix_from_records, from_segments, ChemicalRecord, SegmentRecord, Identifier)", "model parameter types of feos (PC-SAFT, gc-PC-SAFT, SAFT-VR Mie, SAFT-VRQ Mie, ePC-SAFT, PeTS, uv-theory, Joback, DIPPR, Peng-Robinson)", "serde_json as configured by feos (no float_roundtrip)", "std::fs on a tmpfs scratch directory"],
            "stub": ["getrandom(2) -> seeded (std HashMap RandomState keys)", "disk content and damage written by the simulator"],
            "not_exercised": ["shipped parameter files (C15)", "Python parameter bindings"]
        })
    }
    fn assumptions(&self) -> Vec<String> {
        vec![
            "reference loader: identifier lookup in file order, pair lookup in both orientations with the direct orientation first, documented defaults, documented combining rules".into(),
            "kept out of the generated space (unspecified by the property): two records with the same lookup identifier in one file, one pair stored in both orientations with different values, queried records lacking the selected identifier kind".into(),
            "under a disk fault the call may fail; if it succeeds it must agree with the reference loader applied to the bytes now on disk".into(),
            "behaviour equality judged at 1e-12 relative (hash order changes the summation order of segment contributions in the last bits)".into(),
        ]
    }
}


/// debugging aid: per-contribution Helmholtz energies of a PC-SAFT mixture in both component orders
pub fn debug_pcsaft(path: &str) {
    let recs: Vec<PureRecord<feos::pcsaft::PcSaftRecord>> = serde_json::from_str(&std::fs::read_to_string(path).unwrap()).unwrap();
    let mut rev = recs.clone();
    rev.reverse();
    let n = recs.len();
    let moles: Array1<f64> = (0..n).map(|i| 0.5 + 0.9 * i as f64).collect();
    let mut rmoles = moles.to_vec();
    rmoles.reverse();
    for (r, m) in [(recs, moles.clone()), (rev, Array1::from_vec(rmoles))] {
        let eos = PcSaft::new(Arc::new(PcSaftParameters::from_records(r, None).unwrap()));
        let s = StateHD::new(350.0, 1500.0 * m.sum(), m);
        for (name, a) in eos.residual_helmholtz_energy_contributions(&s) {
            println!("{name:30} {a:.15e}");
        }
        println!("--");
    }
}
