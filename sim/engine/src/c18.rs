//! C18 — a solved density profile is a stationary point and meets its specification.
//!
//! Seeded operation histories on one `DFTProfile` (planar interface or 1-D pore):
//! solver chains, interrupted solves (small `max_iter`: the crash), partially
//! committed solves (`debug = true`: the restart state), clones, restarts from
//! earlier solutions, specification changes. Oracles are recomputed independently
//! through the public API after every operation.
use crate::common::*;
use crate::systems::{harness, pcsaft_params, repo_file};
use feos::gc_pcsaft::{GcPcSaftFunctional, GcPcSaftFunctionalParameters};
use feos::pcsaft::PcSaftFunctional;
use feos::pets::{PetsFunctional, PetsParameters};
use feos::ResidualModel;
use feos_core::parameter::{IdentifierOption, Parameter, ParameterHetero};
use feos_core::{Contributions, PhaseEquilibrium, ReferenceSystem, SolverOptions, State};
use feos_dft::adsorption::{ExternalPotential, Pore1D, PoreProfile1D, PoreSpecification};
use feos_dft::interface::PlanarInterface;
use feos_dft::solvation::PairCorrelation;
use feos_dft::{DFTSolver, DFTSpecifications, Geometry};
use ndarray::{arr1, Array1, Array2, Axis};
use quantity::{Density, ANGSTROM, KELVIN, MOL};
use serde::{Deserialize, Serialize};
use serde_json::{json, Value};
use std::collections::HashMap;
use std::sync::{Arc, Mutex, OnceLock};

pub(crate) type F = ResidualModel;

pub(crate) struct Sys {
    pub name: &'static str,
    pub func: Arc<F>,
    pub tc: f64,
    pub rhoc: f64,
    pub binary_x: Option<f64>,
}

pub(crate) struct Pool {
    pub systems: Vec<Sys>,
    memo: Mutex<HashMap<String, Option<RefObs>>>,
}

#[derive(Clone, Debug)]
struct RefObs {
    /// surface tension (interface) or grand potential (pore), reduced units
    a: f64,
    /// adsorbed amounts (pore), reduced
    n: Vec<f64>,
}

pub(crate) fn pool() -> &'static Pool {
    static POOL: OnceLock<Pool> = OnceLock::new();
    POOL.get_or_init(|| with_fixed_entropy(|| {
        let mut systems = Vec::new();
        let mut add = |name: &'static str, func: F, binary_x: Option<f64>| {
            let func = Arc::new(func);
            let moles = binary_x.map(|x| arr1(&[x, 1.0 - x]) * MOL);
            let cp = State::critical_point(&func, moles.as_ref(), None, SolverOptions::default())
                .unwrap_or_else(|e| harness(&format!("critical point of {name}: {e}")));
            systems.push(Sys {
                name,
                func,
                tc: cp.temperature.to_reduced(),
                rhoc: cp.density.to_reduced(),
                binary_x,
            });
        };
        add(
            "pcsaft_functional_propane",
            ResidualModel::PcSaftFunctional(PcSaftFunctional::new(Arc::new(pcsaft_params(&["propane"])))),
            None,
        );
        {
            let recs = r#"[{"identifier":{"name":"a"},"molarweight":39.948,"model_record":{"sigma":3.4,"epsilon_k":120.0}}]"#;
            let p = PetsParameters::from_records(serde_json::from_str(recs).unwrap(), None).unwrap();
            add("pets_functional", ResidualModel::PetsFunctional(PetsFunctional::new(Arc::new(p))), None);
        }
        {
            let p = GcPcSaftFunctionalParameters::from_json_segments(
                &["propane"],
                repo_file("parameters/pcsaft/gc_substances.json"),
                repo_file("parameters/pcsaft/sauer2014_hetero.json"),
                None,
                IdentifierOption::Name,
            )
            .unwrap_or_else(|e| harness(&format!("gc functional: {e}")));
            add(
                "gc_pcsaft_functional_propane",
                ResidualModel::GcPcSaftFunctional(GcPcSaftFunctional::new(Arc::new(p))),
                None,
            );
        }
        add(
            "pcsaft_functional_propane_butane",
            ResidualModel::PcSaftFunctional(PcSaftFunctional::new(Arc::new(pcsaft_params(&["propane", "butane"])))),
            Some(0.5),
        );
        add(
            "pcsaft_functional_butane",
            ResidualModel::PcSaftFunctional(PcSaftFunctional::new(Arc::new(pcsaft_params(&["butane"])))),
            None,
        );
        {
            // heterosegmented mixture: the segment-to-component map is not the identity
            let p = GcPcSaftFunctionalParameters::from_json_segments(
                &["propane", "butane"],
                repo_file("parameters/pcsaft/gc_substances.json"),
                repo_file("parameters/pcsaft/sauer2014_hetero.json"),
                None,
                IdentifierOption::Name,
            )
            .unwrap_or_else(|e| harness(&format!("gc functional mixture: {e}")));
            add(
                "gc_pcsaft_functional_propane_butane",
                ResidualModel::GcPcSaftFunctional(GcPcSaftFunctional::new(Arc::new(p))),
                Some(0.5),
            );
        }
        Pool {
            systems,
            memo: Mutex::new(HashMap::new()),
        }
    }))
}

// ------------------------------------------------------------------ scenario

#[derive(Serialize, Deserialize, Clone, Debug, PartialEq)]
pub struct Stage {
    /// 0 picard, 1 anderson, 2 newton
    pub algo: u8,
    pub log: bool,
    pub max_iter: usize,
    /// tolerance = 10^-tol_exp
    pub tol_exp: f64,
    pub damping: Option<f64>,
    pub mmax: usize,
    pub gmres: usize,
}

#[derive(Serialize, Deserialize, Clone, Debug, PartialEq)]
pub enum Op {
    Solve { chain: Vec<Stage>, debug: bool },
    /// clone the profile and continue on the clone; the original must stay untouched
    Branch,
    /// restart from the initial profile (0) or from an earlier solution of this history (1)
    Restart { from: u8, which: usize, scale: bool },
    /// 0 chemical potential, 1 total moles from profile, 2 moles from profile
    Spec { kind: u8 },
    /// pores: move to another bulk state (density scaled by `f`), keeping the density profile
    /// as the initial guess (PoreProfile::update_bulk, the restart path of the isotherm drivers)
    UpdateBulk { f: f64 },
}

#[derive(Serialize, Deserialize, Clone, Debug)]
pub enum Kind {
    Interface { pdgt_init: bool, l_grid: f64 },
    Pore { geometry: u8, size: f64, eps_ss: f64, tf_bulk: f64, rho_f: f64 },
    /// test-particle system (pair correlation function, self solvation free energy)
    Pair { test_particle: usize, width: f64, tf_bulk: f64, rho_f: f64 },
}

#[derive(Serialize, Deserialize, Clone, Debug)]
pub struct Scenario {
    pub system: usize,
    pub kind: Kind,
    pub tf: f64,
    pub n_grid: usize,
    pub ops: Vec<Op>,
}

pub(crate) fn build_solver(chain: &[Stage]) -> DFTSolver {
    let mut s = DFTSolver::new(None);
    for st in chain {
        let tol = Some(10f64.powf(-st.tol_exp));
        s = match st.algo {
            0 => s.picard_iteration(Some(st.log), Some(st.max_iter), tol, st.damping),
            1 => s.anderson_mixing(Some(st.log), Some(st.max_iter), tol, st.damping, Some(st.mmax)),
            _ => s.newton(Some(st.log), Some(st.max_iter), Some(st.gmres), tol),
        };
    }
    s
}

// ------------------------------------------------------------------ the simulated object

enum Obj {
    Interface(Box<PlanarInterface<F>>),
    Pore(Box<PoreProfile1D<F>>),
    Pair(Box<PairCorrelation<F>>),
}

impl Obj {
    fn profile(&self) -> &feos_dft::DFTProfile<ndarray::Ix1, F> {
        match self {
            Obj::Interface(i) => &i.profile,
            Obj::Pore(p) => &p.profile,
            Obj::Pair(p) => &p.profile,
        }
    }
    fn profile_mut(&mut self) -> &mut feos_dft::DFTProfile<ndarray::Ix1, F> {
        match self {
            Obj::Interface(i) => &mut i.profile,
            Obj::Pore(p) => &mut p.profile,
            Obj::Pair(p) => &mut p.profile,
        }
    }
    fn solve(&mut self, solver: Option<&DFTSolver>, debug: bool) -> feos_core::EosResult<()> {
        match self {
            Obj::Interface(i) => i.solve_inplace(solver, debug),
            Obj::Pore(p) => p.solve_inplace(solver, debug),
            Obj::Pair(p) => p.solve_inplace(solver, debug),
        }
    }
    fn clone_obj(&self) -> Obj {
        match self {
            Obj::Interface(i) => Obj::Interface(i.clone()),
            Obj::Pore(p) => Obj::Pore(p.clone()),
            Obj::Pair(p) => Obj::Pair(p.clone()),
        }
    }
    fn observable(&self) -> Option<RefObs> {
        match self {
            Obj::Interface(i) => i.surface_tension.map(|g| RefObs {
                a: g.to_reduced(),
                n: vec![],
            }),
            Obj::Pore(p) => p.grand_potential.map(|o| RefObs {
                a: o.to_reduced(),
                n: p.profile.moles().to_reduced().to_vec(),
            }),
            Obj::Pair(p) => p.self_solvation_free_energy.map(|o| RefObs {
                a: o.to_reduced(),
                n: p.structure_factor.into_iter().collect(),
            }),
        }
    }
}

fn density_bits(p: &feos_dft::DFTProfile<ndarray::Ix1, F>) -> Vec<u64> {
    let mut v: Vec<u64> = p.density.to_reduced().iter().map(|x| x.to_bits()).collect();
    v.extend(p.bulk.partial_density.to_reduced().iter().map(|x| x.to_bits()));
    v.push(p.bulk.temperature.to_reduced().to_bits());
    v
}

fn build(sc: &Scenario) -> Result<Obj, String> {
    build_with_bulk(sc, 1.0)
}

/// Setting a system up (bulk phase equilibria, initial profiles) can panic inside feos: the
/// functionals unwrap the result of their bulk Helmholtz energy (functional_contribution.rs:45),
/// which fails for trial states beyond the packing limit. That is not a solve and not judged.
pub(crate) fn guarded<T>(f: impl FnOnce() -> Result<T, String>) -> Result<T, String> {
    match std::panic::catch_unwind(std::panic::AssertUnwindSafe(f)) {
        Ok(r) => r,
        Err(_) => Err(format!("panic: {}", take_last_panic().unwrap_or_default())),
    }
}

fn bulk_state(sc: &Scenario, bulk_factor: f64) -> Result<State<F>, String> {
    let sys = &pool().systems[sc.system % pool().systems.len()];
    let (tf_bulk, rho_f) = match &sc.kind {
        Kind::Pore { tf_bulk, rho_f, .. } | Kind::Pair { tf_bulk, rho_f, .. } => (tf_bulk, rho_f),
        _ => return Err("no bulk state".into()),
    };
    let moles = match sys.binary_x {
        None => arr1(&[1.0]) * MOL,
        Some(x) => arr1(&[x, 1.0 - x]) * MOL,
    };
    let t = tf_bulk * sys.tc * KELVIN;
    let rho = if *tf_bulk < 1.0 {
        // sub-saturation bulk state: a fraction of the saturated vapor density
        let vle = match sys.binary_x {
            None => PhaseEquilibrium::pure(&sys.func, t, None, Default::default()),
            Some(x) => PhaseEquilibrium::dew_point(&sys.func, t, &arr1(&[x, 1.0 - x]), None, None, Default::default()),
        }
        .map_err(|e| format!("vle for bulk: {e}"))?;
        vle.vapor().density * (rho_f * bulk_factor).min(0.9)
    } else {
        Density::from_reduced(rho_f * bulk_factor * sys.rhoc)
    };
    State::new_nvt(&sys.func, t, moles.sum() / rho, &moles).map_err(|e| format!("bulk: {e}"))
}

fn build_with_bulk(sc: &Scenario, bulk_factor: f64) -> Result<Obj, String> {
    let sys = &pool().systems[sc.system % pool().systems.len()];
    match &sc.kind {
        Kind::Interface { pdgt_init, l_grid } => {
            let t = sc.tf * sys.tc * KELVIN;
            let vle = match sys.binary_x {
                None => PhaseEquilibrium::pure(&sys.func, t, None, Default::default()),
                Some(x) => PhaseEquilibrium::bubble_point(&sys.func, t, &arr1(&[x, 1.0 - x]), None, None, Default::default()),
            }
            .map_err(|e| format!("vle: {e}"))?;
            if *pdgt_init && sys.binary_x.is_none() && sys.func_is_simple() {
                PlanarInterface::from_pdgt(&vle, sc.n_grid, false)
                    .map(|i| Obj::Interface(Box::new(i)))
                    .map_err(|e| format!("pdgt: {e}"))
            } else {
                Ok(Obj::Interface(Box::new(PlanarInterface::from_tanh(
                    &vle,
                    sc.n_grid,
                    *l_grid * ANGSTROM,
                    sys.tc * KELVIN,
                    false,
                ))))
            }
        }
        Kind::Pore { geometry, size, eps_ss, tf_bulk, rho_f } => {
            let geometry = match geometry {
                0 => Geometry::Cartesian,
                1 => Geometry::Cylindrical,
                _ => Geometry::Spherical,
            };
            let _ = (tf_bulk, rho_f);
            let bulk = bulk_state(sc, bulk_factor)?;
            Pore1D::new(
                geometry,
                *size * ANGSTROM,
                ExternalPotential::LJ93 {
                    sigma_ss: 3.0,
                    epsilon_k_ss: *eps_ss,
                    rho_s: 0.08,
                },
                Some(sc.n_grid),
                None,
            )
            .initialize(&bulk, None, None)
            .map(|p| Obj::Pore(Box::new(p)))
            .map_err(|e| format!("pore: {e}"))
        }
        Kind::Pair { test_particle, width, .. } => {
            use feos_core::Components;
            use feos_dft::HelmholtzEnergyFunctional;
            if sys.func.component_index().len() != sys.func.components() {
                return Err("no pair potential for heterosegmented functionals".into());
            }
            let bulk = bulk_state(sc, bulk_factor)?;
            Ok(Obj::Pair(Box::new(PairCorrelation::new(&bulk, test_particle % sys.func.components(), sc.n_grid, *width * ANGSTROM))))
        }
    }
}

impl Sys {
    /// pDGT initialisation is only defined for non-segment, pure-component functionals
    fn func_is_simple(&self) -> bool {
        use feos_dft::HelmholtzEnergyFunctional;
        self.func.component_index().len() == 1
    }
}

fn reference(sc: &Scenario, bulk_factor: f64) -> Option<RefObs> {
    let key = format!("{}|{:?}|{}|{}|{}", sc.system, sc.kind, sc.tf, sc.n_grid, bulk_factor);
    if let Some(v) = pool().memo.lock().unwrap().get(&key) {
        return v.clone();
    }
    // one-shot reference: default solver from the canonical initial profile
    let v = guarded(|| {
        Ok(build_with_bulk(sc, bulk_factor).ok().and_then(|mut o| {
            o.solve(None, false).ok()?;
            o.observable()
        }))
    })
    .ok()
    .flatten();
    pool().memo.lock().unwrap().insert(key, v.clone());
    v
}

fn interface_intact(i: &PlanarInterface<F>) -> bool {
    let rho = i.profile.density.to_reduced().sum_axis(Axis(0));
    let n = rho.len();
    let rl = i.vle.liquid().density.to_reduced();
    let rv = i.vle.vapor().density.to_reduced();
    let (a, b) = (rho[0], rho[n - 1]);
    let ends_ok = ((a - rl).abs() < 0.01 * rl && (b - rv).abs() < 0.01 * rl) || ((b - rl).abs() < 0.01 * rl && (a - rv).abs() < 0.01 * rl);
    if !ends_ok {
        return false;
    }
    // dividing surface inside the middle half of the box
    let mid = 0.5 * (rl + rv);
    let k = rho.iter().position(|r| (*r - mid) * (a - mid) < 0.0).unwrap_or(0);
    // exactly one interface: a profile with a slab or bubble in between (three interfaces) is
    // another stationary solution with three times the surface tension
    let crossings = rho.iter().zip(rho.iter().skip(1)).filter(|(x, y)| (**x - mid) * (**y - mid) < 0.0).count();
    crossings == 1 && k > n / 4 && k < 3 * n / 4
}

fn execute(sc: &Scenario) -> RunOutcome {
    let mut out = RunOutcome::default();
    let mut dg = Digest::default();
    let sys = &pool().systems[sc.system % pool().systems.len()];
    let mut obj = match guarded(|| build(sc)) {
        Ok(o) => o,
        Err(e) => {
            out.count("probe.build_failed", 1);
            dg.str(&e);
            out.digest = dg.0;
            return out;
        }
    };
    // S0: the uniform bulk profile (no external potential) on this scenario's kind of grid is a
    // stationary point - the FFT convolver, the weight functions and the bulk convolver agree
    // (measured on the pinned tree: <= 5e-14 relative for every functional, geometry and grid size)
    {
        use feos_dft::{Axis as Ax, DFTProfile, Grid};
        let mut bulks = vec![obj.profile().bulk.clone()];
        if let Obj::Interface(i) = &obj {
            bulks.push(i.vle.liquid().clone());
        }
        for b in bulks {
            let w = 40.0 * ANGSTROM;
            let grid = match &sc.kind {
                Kind::Interface { .. } | Kind::Pore { geometry: 0, .. } => Grid::Cartesian1(Ax::new_cartesian(sc.n_grid, w, None)),
                Kind::Pore { geometry: 1, .. } => Grid::Polar(Ax::new_polar(sc.n_grid, w)),
                _ => Grid::Spherical(Ax::new_spherical(sc.n_grid, w)),
            };
            let r = guarded(|| {
                let p = DFTProfile::<ndarray::Ix1, F>::new(grid, &b, None, None, None);
                let rho = p.density.to_reduced();
                p.residual(false).map(|x| x.0.iter().zip(rho.iter()).map(|(a, b)| (a / b).abs()).fold(0.0, f64::max)).map_err(|e| e.to_string())
            });
            if let Ok(worst) = r {
                out.count("oracle.uniform_profile_stationary", 1);
                out.max("uniform_profile_relative_residual", worst);
                if !(worst <= 1e-9) {
                    out.violate("uniform-not-stationary", "uniform", format!("{} n={}: the uniform profile at the bulk density {:e} has a relative Euler-Lagrange residual of {worst:e}", sys.name, sc.n_grid, b.density.to_reduced()));
                }
            }
        }
    }
    let initial_density = obj.profile().density.clone();
    let mut initial_bulk = obj.profile().bulk.partial_density.to_reduced();
    let mut bulk_factor = 1.0f64;
    let mut snapshots: Vec<Density<Array2<f64>>> = Vec::new();
    let mut frozen: Vec<(Obj, Vec<u64>)> = Vec::new();
    let mut spec_kind = 0u8;
    let mut spec_moles: Option<Array1<f64>> = None;
    let what = |i: usize| format!("{} {:?} T={} Tc n={} op {i}", sys.name, sc.kind, sc.tf, sc.n_grid);
    for (i, op) in sc.ops.iter().enumerate() {
        dg.u64(i as u64);
        out.note(format!("op {i}: {op:?}"));
        match op {
            Op::Solve { chain, debug } => {
                let solver = build_solver(chain);
                let before = density_bits(obj.profile());
                let bulk_before = obj.profile().bulk.partial_density.to_reduced();
                // a panic inside the solver is not a reported success: treated as an interrupted
                // call (nothing may be committed), counted, and not judged under this property
                let res = match std::panic::catch_unwind(std::panic::AssertUnwindSafe(|| obj.solve(Some(&solver), *debug))) {
                    Ok(r) => r,
                    Err(_) => {
                        // the panic may have poisoned the cache lock of the bulk state: the
                        // history ends here
                        let _ = take_last_panic();
                        out.count("probe.solver_panicked", 1);
                        break;
                    }
                };
                let iters = obj.profile().solver_log.as_ref().map_or(0, |l| l.residual().len());
                out.note(format!("  -> {} after {iters} logged iterations", if res.is_ok() { "Ok" } else { "Err" }));
                out.steps += iters as u64;
                out.count("op.solve", 1);
                let last = chain.last();
                match res {
                    Ok(()) => {
                        let p = obj.profile();
                        let rho = p.density.to_reduced();
                        for x in rho.iter().step_by(rho.len() / 16 + 1) {
                            dg.f64(*x);
                        }
                        // S2: finite and positive where the wall is not overwhelming (only for a
                        // reported success: debug = true returns whatever iterate it has)
                        let bad = rho
                            .iter()
                            .zip(p.external_potential.iter())
                            .filter(|(r, v)| !r.is_finite() || (**v < 49.0 && **r <= 0.0))
                            .count();
                        if bad > 0 && *debug {
                            out.count("probe.debug_commit_with_invalid_density", 1);
                        }
                        if bad > 0 && !*debug {
                            // the signature names what is wrong and which kind of stage declared
                            // convergence, so that a listed finding does not hide a different one
                            let zeros = rho.iter().zip(p.external_potential.iter()).all(|(r, v)| r.is_finite() && (*r > 0.0 || *r == 0.0 || *v >= 49.0)) ;
                            let stage = last.map_or("default".to_string(), |s| format!("{}{}", ["picard", "anderson", "newton"][s.algo.min(2) as usize], if s.log { "-log" } else { "-linear" }));
                            // negative densities were seen for every kind of solver, but only for
                            // heterosegmented functionals in cylindrical pores: that family is keyed by
                            // the system, exact zeros by the stage that produced them
                            let hetero = { use feos_core::Components; use feos_dft::HelmholtzEnergyFunctional; p.dft.component_index().len() > p.dft.components() };
                            let geometry = match &sc.kind {
                                Kind::Interface { .. } => "interface",
                                Kind::Pore { geometry: 0, .. } => "slit",
                                Kind::Pore { geometry: 1, .. } => "cylinder",
                                Kind::Pore { .. } => "sphere",
                                Kind::Pair { .. } => "test-particle",
                            };
                            let _ = &stage;
                            let sig = if zeros {
                                // reached through several kinds of stages (abs() after a Newton step,
                                // underflow of exp() in a log-space Anderson step, kept by later stages):
                                // keyed by the absorbing state itself
                                "density:exact-zeros".to_string()
                            } else {
                                format!("density:negative-or-non-finite:{}:{geometry}", if hetero { "heterosegmented" } else { "homosegmented" })
                            };
                            out.violate("density-invalid", &sig, format!("{}: {bad} grid points with non-finite or non-positive density after a successful solve (chain {chain:?})", what(i)));
                        }
                        if *debug {
                            out.count("fault.partial_commit_debug", 1);
                        } else {
                            out.count("probe.solve_ok", 1);
                            // S1: independently recomputed Euler-Lagrange residual below the tolerance
                            // of the stage that declared convergence
                            let tol = 10f64.powf(-last.map_or(11.0, |s| s.tol_exp));
                            match p.residual(false) {
                                Ok((res, res_bulk, rn_lib)) => {
                                    // norm recomputed here from the residual arrays, so that the check does
                                    // not inherit the library's own normalisation
                                    let ss: f64 = res.iter().map(|x| x * x).sum::<f64>() + res_bulk.iter().map(|x| x * x).sum::<f64>();
                                    let rn_own = (ss / (res.len() + res_bulk.len()) as f64).sqrt();
                                    let rn = rn_own.max(rn_lib);
                                    // the residual array may only be masked where the wall is overwhelming:
                                    // an entry that is exactly 0.0 elsewhere (at positive density) means the
                                    // equation was not evaluated there
                                    let masked = res
                                        .iter()
                                        .zip(p.external_potential.iter())
                                        .zip(rho.iter())
                                        .filter(|((r, v), d)| **r == 0.0 && **v < 49.0 && **d > 0.0)
                                        .count();
                                    // (a residual converged to the last bit is legitimately 0.0 here and there)
                                    let rel_max = res.iter().zip(rho.iter()).filter(|(_, d)| **d > 0.0).map(|(r, d)| (r / d).abs()).fold(0.0, f64::max);
                                    out.max("residual_exact_zero_points", masked as f64);
                                    // probe only: flat converged regions reproduce the bulk density to the last bit,
                                    // so exact zeros are legitimate (tried as an oracle: false alarm, see DESIGN 10)
                                    let _ = rel_max;
                                    out.max("residual_over_tol", rn / tol);
                                    dg.f64(rn);
                                    if !(rn <= tol * (1.0 + 1e-6)) {
                                        out.violate(
                                            "residual-above-tolerance",
                                            "residual",
                                            format!("{}: solve reported success, recomputed residual {rn:e} > tolerance {tol:e} (chain {chain:?})", what(i)),
                                        );
                                    }
                                }
                                Err(e) => out.violate("residual-error", "residual", format!("{}: residual of a solved profile cannot be evaluated: {e}", what(i))),
                            }
                            // S1c: the Euler-Lagrange equation itself, assembled here from the functional
                            // derivative of the profile and of a uniform profile at the bulk state (not via
                            // DFTProfile::residual / euler_lagrange_equation)
                            if spec_kind == 0 && bad == 0 {
                                if let Some(rn) = independent_residual(p) {
                                    out.count("oracle.independent_residual", 1);
                                    out.max("independent_residual_over_tol", rn / tol);
                                    if !(rn <= tol * (1.0 + 1e-3)) {
                                        out.violate(
                                            "independent-residual-above-tolerance",
                                            "residual-independent",
                                            format!("{}: solve reported success, Euler-Lagrange residual assembled from the functional derivative is {rn:e} > tolerance {tol:e} (chain {chain:?})", what(i)),
                                        );
                                    }
                                }
                            }
                            // S5: specification
                            match spec_kind {
                                0 => {
                                    let d = p
                                        .bulk
                                        .partial_density
                                        .to_reduced()
                                        .iter()
                                        .zip(bulk_before.iter())
                                        .map(|(a, b)| deviation(*a, *b, 1e-300))
                                        .fold(0.0, f64::max);
                                    out.max("bulk_drift", d);
                                    out.max(&format!("bulk_drift.tol{}.{}", last.map_or(11.0, |s| s.tol_exp), if chain.iter().any(|s| s.algo == 1) { "with_anderson" } else { "no_anderson" }), d);
                                    // measured on the repaired tree: <= 1.1e-15 for every solver chain
                                    // (before the repair of the Anderson mixing: 4e-11 .. 1)
                                    if !(d <= 1e-10) {
                                        out.violate("bulk-changed", "bulk", format!("{}: bulk partial densities changed by {d:e} under the default specification", what(i)));
                                    }
                                }
                                _ => {
                                    out.count("probe.particle_number_spec_success", 1);
                                    let n = p.moles().to_reduced();
                                    let (got, want) = match (&spec_moles, spec_kind) {
                                        (Some(m), 2) => (n.clone(), m.clone()),
                                        (Some(m), _) => (arr1(&[n.sum()]), arr1(&[m.sum()])),
                                        _ => (n.clone(), n.clone()),
                                    };
                                    let d = got.iter().zip(want.iter()).map(|(a, b)| deviation(*a, *b, 1e-300)).fold(0.0, f64::max);
                                    out.max("moles_dev", d);
                                    if !(d <= 1e-8) {
                                        let sig = if spec_kind == 2 { "moles:moles-specification" } else { "moles:total-moles-specification" };
                                        out.violate("moles-mismatch", sig, format!("{}: profile contains {got:?}, specified {want:?} (chain {chain:?})", what(i)));
                                    }
                                }
                            }
                            // S4b: the stored observable belongs to the committed profile
                            let recomputed = match &obj {
                                Obj::Interface(ifc) => ifc.profile.grand_potential_density().ok().map(|w| {
                                    (ifc.profile.integrate(&(w + ifc.vle.vapor().pressure(Contributions::Total))) / quantity::Area::from_reduced(1.0)).to_reduced()
                                }),
                                Obj::Pore(pp) => pp.profile.grand_potential().ok().map(|o| o.to_reduced()),
                                Obj::Pair(pc) => pc.profile.grand_potential_density().ok().map(|w| pc.profile.integrate(&(w + pc.profile.bulk.pressure(Contributions::Total))).to_reduced()),
                            };
                            if let (Some(rc), Some(o)) = (recomputed, obj.observable()) {
                                let d = deviation(rc, o.a, 1e-300);
                                out.max("observable_staleness", d);
                                if !(d <= 1e-10) {
                                    out.violate("observable-stale", "observable-stale", format!("{}: stored observable {} does not belong to the committed profile (recomputed {rc})", what(i), o.a));
                                }
                            }
                            // S4: path independence of position-independent observables
                            // (test-particle systems: the excess grand potential is integrated with weight r^2 over a
                            // volume of 1e5 A^3 in which it almost cancels, so an absolute density error of 4.5e-9
                            // (tolerance 1e-9) moves it by 5e-3; measured. Compared for tolerance 1e-11 only.)
                            let tight = last.map_or(true, |s| s.tol_exp >= if matches!(sc.kind, Kind::Pair { .. }) { 11.0 } else { 9.0 });
                            // a profile with invalid densities has been reported above; its
                            // observables are not compared on top of that
                            if tight && spec_kind == 0 && bad == 0 {
                                let intact = match &obj {
                                    Obj::Interface(ifc) => interface_intact(ifc),
                                    Obj::Pore(_) | Obj::Pair(_) => true,
                                };
                                // below the critical temperature a pore can hold several stationary
                                // profiles (capillary condensation hysteresis): no path independence
                                let unique = !matches!(&sc.kind, Kind::Pore { tf_bulk, .. } if *tf_bulk < 1.0);
                                if !unique {
                                    out.count("window.subcritical_pore_no_path_independence", 1);
                                }
                                let intact = intact && unique;
                                // the reference belongs to the initial bulk state; a committed solve under a
                                // particle-number specification legitimately moves the bulk state
                                let same_bulk = obj
                                    .profile()
                                    .bulk
                                    .partial_density
                                    .to_reduced()
                                    .iter()
                                    .zip(initial_bulk.iter())
                                    .all(|(a, b)| deviation(*a, *b, 1e-300) <= 1e-12);
                                if !intact {
                                    out.count("probe.interface_left_the_box", 1);
                                } else if !same_bulk {
                                    out.count("probe.bulk_moved_by_particle_number_spec", 1);
                                } else if let (Some(o), Some(r)) = (obj.observable(), reference(sc, bulk_factor)) {
                                    // (the self solvation free energy is a cancelling integral of order kT that can be
                                    // close to zero: judged on the scale of 1 kT)
                                    let mut d = deviation(o.a, r.a, if matches!(obj, Obj::Pair(_)) { 1.0 } else { 1e-300 });
                                    for (a, b) in o.n.iter().zip(&r.n) {
                                        d = d.max(deviation(*a, *b, 1e-300));
                                    }
                                    out.max("observable_dev", d);
                                    out.max(&format!("observable_dev.{}.n{}", match obj { Obj::Pore(_) => "pore", Obj::Pair(_) => "pair", Obj::Interface(_) => "interface" }, sc.n_grid), d);
                                    out.count("oracle.path_independence_compared", 1);
                                    if d > 1e-6 && std::env::var("VERIF_DEBUG").is_ok() {
                                        eprintln!("DEV {d:e} {} last={:?} obs={o:?} ref={r:?}", what(i), last);
                                    }
                                    dg.f64(o.a);
                                    // Converged profiles on the same grid still differ through the position
                                    // of the interface in the finite box and through the absolute residual
                                    // tolerance (measured on the pinned tree: <= 6e-5); anything a wrong
                                    // stationary point or a stale observable produces is far above 1e-3
                                    // (test-particle systems: measured <= 6.8e-4 in 4000 histories, judged at 5e-3)
                                    if !(d <= if matches!(obj, Obj::Pair(_)) { 5e-3 } else { 1e-3 }) {
                                        out.violate(
                                            "path-dependence",
                                            "observable",
                                            format!("{}: observable {o:?} after this history differs from the one-shot reference {r:?} (dev {d:e}, chain {chain:?})", what(i)),
                                        );
                                    }
                                }
                            }
                            snapshots.push(obj.profile().density.clone());
                        }
                    }
                    Err(_) => {
                        out.count("fault.solve_interrupted_err", 1);
                        // The property is conditional on success, so a partially committed profile
                        // after an error is reported as a reach probe, not judged (on the pinned tree
                        // it happens only with debug=true when rebuilding the bulk state fails)
                        if density_bits(obj.profile()) != before {
                            out.count("probe.error_after_partial_commit", 1);
                        }
                    }
                }
            }
            Op::Branch => {
                let c = obj.clone_obj();
                let bits = density_bits(obj.profile());
                let old = std::mem::replace(&mut obj, c);
                frozen.push((old, bits));
                out.count("op.branch", 1);
            }
            Op::Restart { from, which, scale } => {
                let init = if *from == 1 && !snapshots.is_empty() {
                    out.count("probe.restart_from_previous_solution", 1);
                    snapshots[which % snapshots.len()].clone()
                } else {
                    initial_density.clone()
                };
                match &mut obj {
                    Obj::Interface(ifc) => ifc.set_density_inplace(&init, *scale),
                    Obj::Pore(p) => p.profile.density = init,
                    Obj::Pair(p) => p.profile.density = init,
                }
                out.count("op.restart", 1);
            }
            Op::UpdateBulk { f } => {
                if let Obj::Pore(p) = obj {
                    match guarded(|| bulk_state(sc, *f)) {
                        Ok(b) => {
                            obj = Obj::Pore(Box::new(p.update_bulk(&b)));
                            bulk_factor = *f;
                            initial_bulk = obj.profile().bulk.partial_density.to_reduced();
                            out.count("op.update_bulk", 1);
                        }
                        Err(_) => obj = Obj::Pore(p),
                    }
                }
            }
            Op::Spec { kind } => {
                spec_kind = *kind;
                let p = obj.profile_mut();
                match kind {
                    0 => p.specification = Arc::new(DFTSpecifications::ChemicalPotential),
                    1 => {
                        spec_moles = Some(p.moles().to_reduced());
                        p.specification = DFTSpecifications::total_moles_from_profile(p);
                    }
                    _ => {
                        spec_moles = Some(p.moles().to_reduced());
                        p.specification = DFTSpecifications::moles_from_profile(p);
                    }
                }
                out.count("op.spec_change", 1);
            }
        }
        // a branch taken earlier must never be affected by work on its clone
        for (o, bits) in &frozen {
            if &density_bits(o.profile()) != bits {
                out.violate("clone-aliasing", "clone", format!("{}: a profile changed while only its clone was operated on", what(i)));
            }
        }
    }
    out.digest = dg.0;
    out.nontrivial = out.counters.get("op.solve").copied().unwrap_or(0) >= 1;
    out
}

// ------------------------------------------------------------------ engine

pub struct C18;

pub(crate) fn gen_stage(rng: &mut Rng, last: bool) -> Stage {
    let algo = rng.below(3) as u8;
    // interruption: small budgets end a stage unconverged (or the whole call with an error)
    let max_iter = match rng.below(6) {
        0 => rng.range(1, 6),
        1 => rng.range(6, 30),
        _ => match algo {
            0 => rng.range(100, 500),
            1 => rng.range(50, 300),
            _ => rng.range(10, 50),
        },
    };
    let tol_exp = if last { *rng.pick(&[5.0, 7.0, 9.0, 10.0, 11.0]) } else { *rng.pick(&[3.0, 5.0, 7.0, 9.0]) };
    Stage {
        algo,
        log: rng.chance(0.4),
        max_iter,
        tol_exp,
        damping: match algo {
            0 => {
                if rng.chance(0.5) {
                    Some(*rng.pick(&[0.01, 0.05, 0.15, 0.5, 1.0]))
                } else {
                    None
                }
            }
            1 => Some(*rng.pick(&[0.05, 0.15, 0.3, 1.0])),
            _ => None,
        },
        mmax: *rng.pick(&[3usize, 5, 20, 100]),
        gmres: *rng.pick(&[20usize, 200]),
    }
}

impl Engine for C18 {
    type Scenario = Scenario;
    fn property(&self) -> &'static str {
        "C18"
    }
    fn name(&self) -> &'static str {
        "c18-profile"
    }
    fn generate(&self, seed: u64, tier: Tier) -> Scenario {
        let mut rng = Rng::new(seed);
        let p = pool();
        let system = rng.below(p.systems.len());
        let pore = rng.chance(0.4);
        let pair = !pore && rng.chance(0.25);
        let n_grid = match tier {
            // (powers of two, even and odd sizes: the transforms take different code paths)
            Tier::Quick => *rng.pick(&[128usize, 256, 512, 129, 200]),
            Tier::Thorough => *rng.pick(&[128usize, 256, 512, 1024, 129, 200, 257, 333]),
        };
        let tf = rng.uniform(0.5, 0.93);
        let kind = if pore {
            Kind::Pore {
                geometry: rng.below(3) as u8,
                size: rng.uniform(12.0, 35.0),
                // weakly attractive walls and clearly supercritical bulk states: measured to give a
                // unique solution (with eps_ss = 100 two distinct stationary profiles exist and
                // different solvers legitimately land on different branches)
                eps_ss: *rng.pick(&[20.0, 40.0, 60.0]),
                // one in three pores is in contact with a sub-saturation vapor (the property's
                // quantifier); the others with a clearly supercritical fluid
                tf_bulk: if rng.chance(0.33) { rng.uniform(0.7, 0.95) } else { rng.uniform(1.2, 1.5) },
                rho_f: rng.uniform(0.05, 0.6),
            }
        } else if pair {
            Kind::Pair {
                test_particle: rng.below(2),
                width: *rng.pick(&[20.0, 30.0, 40.0]),
                // dilute vapor below T_c, anything from dilute gas to dense fluid above
                tf_bulk: if rng.chance(0.3) { rng.uniform(0.7, 0.95) } else { rng.uniform(1.1, 1.6) },
                rho_f: if rng.chance(0.5) { rng.uniform(0.05, 0.6) } else { rng.uniform(0.6, 2.2) },
            }
        } else {
            Kind::Interface {
                pdgt_init: rng.chance(0.2),
                l_grid: if tf > 0.85 { 240.0 } else { 140.0 },
            }
        };
        let maxops = match tier {
            Tier::Quick => 6,
            Tier::Thorough => 12,
        };
        let n = rng.range(1, maxops);
        let mut ops = Vec::new();
        for k in 0..n {
            let r = rng.below(10);
            ops.push(if k > 0 && r < 2 {
                // a solver restarted close to the solution (ill-conditioned mixing)
                let mut st = gen_stage(&mut rng, true);
                st.algo = 1;
                st.max_iter = rng.range(50, 300);
                st.mmax = 100;
                st.tol_exp = *rng.pick(&[10.0, 11.0]);
                st.damping = Some(*rng.pick(&[0.05, 0.15, 0.3]));
                Op::Solve { chain: vec![st], debug: false }
            } else if k == 0 || r < 6 {
                let ns = rng.range(1, 4);
                let chain = (0..ns).map(|j| gen_stage(&mut rng, j + 1 == ns)).collect();
                Op::Solve { chain, debug: rng.chance(0.2) }
            } else if r == 6 {
                Op::Branch
            } else if r == 7 && pore {
                Op::UpdateBulk { f: *rng.pick(&[0.5, 0.8, 1.0, 1.25, 2.0]) }
            } else if r < 9 {
                Op::Restart { from: rng.below(2) as u8, which: rng.below(16), scale: rng.chance(0.3) }
            } else {
                Op::Spec { kind: rng.below(3) as u8 }
            });
        }
        Scenario { system, kind, tf, n_grid, ops }
    }
    fn execute(&self, sc: &Scenario) -> RunOutcome {
        let mut o = execute(sc);
        o.distinct.push(Digest::of_value(&serde_json::to_value(&sc.ops).unwrap()));
        o
    }
    fn shrink(&self, sc: &Scenario) -> Vec<Scenario> {
        let mut v = Vec::new();
        let n = sc.ops.len();
        if n > 1 {
            let mut t = sc.clone();
            t.ops.truncate(n / 2);
            v.push(t);
            for j in 0..n {
                let mut t = sc.clone();
                t.ops.remove(j);
                v.push(t);
            }
        }
        for j in 0..n {
            if let Op::Solve { chain, debug } = &sc.ops[j] {
                if chain.len() > 1 {
                    for k in 0..chain.len() {
                        let mut c = chain.clone();
                        c.remove(k);
                        let mut t = sc.clone();
                        t.ops[j] = Op::Solve { chain: c, debug: *debug };
                        v.push(t);
                    }
                }
            }
        }
        if sc.n_grid > 128 {
            let mut t = sc.clone();
            t.n_grid = 128;
            v.push(t);
        }
        if sc.system != 0 {
            let mut t = sc.clone();
            t.system = 0;
            v.push(t);
        }
        v
    }
    fn rule(&self) -> String {
        "one case = (functional, planar interface at T in [0.5, 0.93] T_c from tanh or pDGT, or slit/cylindrical/spherical LJ93 pore at a sub-saturation or supercritical bulk state, or test-particle system (pair correlation function, self solvation free energy) in a vapor, gas or dense fluid; grid 128..1024) + a history of 1..12 operations: solve with a chain of 1..4 picard/anderson/newton stages (log or not, seeded damping, mmax, GMRES budget, tol 1e-3..1e-11, max_iter 1..500), debug solve (partial commit), clone-and-continue, restart from the initial profile or an earlier solution (scaled or not), specification change; distinct = distinct operation lists; non-trivial = at least one solve executed.".into()
    }
    fn components(&self) -> Value {
        json!({
            "real": ["feos-dft DFTProfile::solve, solver.rs (Picard, Anderson, Newton-GMRES), euler_lagrange_equation, PlanarInterface, Pore1D, PairCorrelation, convolver (rustfft/rustdct)", "PC-SAFT, PeTS, gc-PC-SAFT functionals"],
            "stub": ["getrandom(2) -> seeded"],
            "faults": ["interruption = iteration budget cut (stage ends unconverged / call returns Err)", "partial commit = debug=true"],
            "not_exercised": ["2-D / 3-D geometries (SolvationProfile, Pore2D/3D)", "wall clock in DFTSolverLog (feeds no decision)"]
        })
    }
    fn assumptions(&self) -> Vec<String> {
        vec![
            "solver tolerance = tol of the last stage of the chain (the stage whose convergence flag is returned)".into(),
            "path independence judged only for final tolerances <= 1e-9, default specification, and interfaces that still connect both bulk phases inside the middle half of the box".into(),
            "particle-number specifications cannot converge on this tree (reported as reach probe); the amount clause is checked whenever such a solve reports success".into(),
        ]
    }
}


/// debugging aid: compare a history's end state with the reference in detail
pub fn debug_replay(path: &str) {
    let rf: ReplayFile = serde_json::from_str(&std::fs::read_to_string(path).unwrap()).unwrap();
    let sc: Scenario = serde_json::from_value(rf.scenario).unwrap();
    let mut r = build(&sc).unwrap();
    let rr = r.solve(None, false);
    println!("reference: {:?} obs {:?} residual {:?}", rr.is_ok(), r.observable(), r.profile().residual(false).map(|x| x.2));
    let mut o = build(&sc).unwrap();
    for op in &sc.ops {
        if let Op::Solve { chain, debug } = op {
            let res = o.solve(Some(&build_solver(chain)), *debug);
            println!("history solve {:?}: obs {:?} residual {:?}", res.is_ok(), o.observable(), o.profile().residual(false).map(|x| x.2));
            if let Some(l) = &o.profile().solver_log {
                println!("  log residuals: {:?}", l.residual().iter().map(|x| format!("{x:.2e}")).collect::<Vec<_>>());
            }
        }
    }
    {
        let rho = o.profile().density.to_reduced();
        for (k, (r, v)) in rho.iter().zip(o.profile().external_potential.iter()).enumerate() {
            if !r.is_finite() || *r <= 0.0 {
                println!("  grid {k}: rho = {r:e}, V_ext = {v}");
            }
        }
    }
    let d: f64 = (o.profile().density.to_reduced() - r.profile().density.to_reduced()).mapv(f64::abs).iter().cloned().fold(0.0, f64::max);
    println!("max |rho - rho_ref| = {d:e}; max rho_ref = {:e}", r.profile().density.to_reduced().iter().cloned().fold(0.0, f64::max));
    let res = o.solve(None, false);
    println!("continue with default solver {:?}: obs {:?}", res.is_ok(), o.observable());
}


/// Euler-Lagrange residual norm of a profile assembled outside `euler_lagrange_equation`:
/// rho_projected = rho_b exp(-(dF/drho + V_ext - dF/drho_b)/m) * bonds, where the bulk functional
/// derivative is taken from a uniform periodic profile at the bulk state.
pub(crate) fn independent_residual<F: feos_dft::HelmholtzEnergyFunctional>(p: &feos_dft::DFTProfile<ndarray::Ix1, F>) -> Option<f64> {
    use feos_dft::{Axis, DFTProfile, Grid};
    let t = p.temperature.to_reduced();
    let rho = p.density.to_reduced();
    let mut df = p.functional_derivative().ok()?;
    df += &p.external_potential;
    let uni = DFTProfile::<ndarray::Ix1, F>::new(Grid::Cartesian1(Axis::new_cartesian(64, 60.0 * quantity::ANGSTROM, None)), &p.bulk, None, None, None);
    let dfb = uni.functional_derivative().ok()?;
    let m = p.dft.m();
    for (s, mut row) in df.outer_iter_mut().enumerate() {
        let b = dfb[[s, 32]];
        let ms = m[s];
        row.mapv_inplace(|x| (x - b) / ms);
    }
    let e = df.mapv(|x| (-x).exp());
    let bonds = p.dft.bond_integrals(t, &e, &p.convolver);
    let mut proj = &e * &bonds;
    let pd = p.bulk.partial_density.to_reduced();
    let ci = p.dft.component_index();
    for (s, mut row) in proj.outer_iter_mut().enumerate() {
        row *= pd[ci[s]];
    }
    // normalised like the solver's criterion (grid points plus one bulk unknown per segment, whose
    // residual is zero for the default specification)
    let n = (rho.len() + ci.len()) as f64;
    let ss: f64 = rho.iter().zip(proj.iter()).map(|(a, b)| (a - b) * (a - b)).sum();
    let r = (ss / n).sqrt();
    r.is_finite().then_some(r)
}


/// debugging aid: residual of the uniform bulk profile (no external potential) on several grids
pub fn debug_uniform() {
    use feos_dft::{Axis as Ax, DFTProfile, Grid};
    for sys in &pool().systems {
        let moles = match sys.binary_x {
            None => arr1(&[1.0]) * MOL,
            Some(x) => arr1(&[x, 1.0 - x]) * MOL,
        };
        for (tf, rf) in [(1.3, 0.3), (1.2, 1.8), (0.8, 2.6)] {
            let Ok(bulk) = State::new_nvt(&sys.func, tf * sys.tc * KELVIN, moles.sum() / Density::from_reduced(rf * sys.rhoc), &moles) else { continue };
            for n in [100usize, 128, 129, 257] {
                for (gname, grid) in [
                    ("cartesian", Grid::Cartesian1(Ax::new_cartesian(n, 40.0 * ANGSTROM, None))),
                    ("spherical", Grid::Spherical(Ax::new_spherical(n, 40.0 * ANGSTROM))),
                    ("polar", Grid::Polar(Ax::new_polar(n, 40.0 * ANGSTROM))),
                ] {
                    let p = DFTProfile::<ndarray::Ix1, F>::new(grid, &bulk, None, None, None);
                    let r = p.residual(false).map(|x| x.2);
                    let rho = p.density.to_reduced();
                    let res = p.residual(false).ok().map(|x| x.0);
                    let worst = res.map(|r| r.iter().zip(rho.iter()).map(|(a, b)| (a / b).abs()).fold(0.0, f64::max));
                    println!("{} T={tf}Tc rho={rf}rhoc n={n} {gname}: norm {:?} worst relative {:?}", sys.name, r, worst);
                }
            }
        }
    }
}
