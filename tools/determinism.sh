#!/bin/bash
# Determinism proof: every engine is run twice in separate processes, once with 1 worker
# and once with 16 workers (different real entropy, different interleaving of runs over OS
# threads); the per-run event-log digests must be identical line by line.
# usage: tools/determinism.sh [runs] [seed]
cd /verif || exit 2
RUNS=${1:-2000}
SEED=${2:-${VERIF_SEED:-20261001}}
SIM=/verif/sim
./check build >/dev/null || { echo "harness error: build failed"; exit 2; }
tmp=$(mktemp -d /dev/shm/feos-det.XXXXXX)
rc=0
report=/verif/evidence/determinism.txt
: > "$report"
for e in sched:c11-state sched:c11-parpure sim:c12-session sim:c12-driver sim:c14-loader sim:c14-loader-faults sim:c18-profile sim:c18-driver; do
  cfg=${e%%:*}; name=${e##*:}
  n=$RUNS; case "$name" in c18-profile|c18-driver) n=$((RUNS/8+1));; esac
  VERIF_DIR=$tmp/a "$SIM/target-$cfg/release/feos-sim" "$name" --seed "$SEED" --runs "$n" --workers 1  --digest-out "$tmp/$name.w1"  >/dev/null 2>&1
  VERIF_DIR=$tmp/b "$SIM/target-$cfg/release/feos-sim" "$name" --seed "$SEED" --runs "$n" --workers 16 --digest-out "$tmp/$name.w16" >/dev/null 2>&1
  VERIF_DIR=$tmp/c "$SIM/target-$cfg/release/feos-sim" "$name" --seed "$SEED" --runs "$n" --workers 5  --digest-out "$tmp/$name.w5"  >/dev/null 2>&1
  if cmp -s "$tmp/$name.w1" "$tmp/$name.w16" && cmp -s "$tmp/$name.w1" "$tmp/$name.w5"; then
    echo "$name: $(wc -l < "$tmp/$name.w1") runs, digests identical across 3 processes (1, 5, 16 workers) sha=$(sha256sum "$tmp/$name.w1" | cut -c1-16)" | tee -a "$report"
  else
    echo "$name: DIGESTS DIFFER" | tee -a "$report"; diff "$tmp/$name.w1" "$tmp/$name.w16" | head -5 | tee -a "$report"; rc=1
  fi
done
rm -rf "$tmp"
exit $rc
