#!/bin/bash
# Regression over the kept seeded changes: apply each to /repo, run the matching quick check,
# expect a violation (exit 1), revert. Results in /verif/seeded/RESULTS.txt
cd /verif || exit 2
if [ -n "$(git -C /repo status --porcelain --untracked-files=no)" ]; then echo "refusing: /repo has uncommitted changes"; exit 2; fi
: > seeded/RESULTS.txt
for d in seeded/C*/; do
  name=$(basename "$d"); id=${name%%-*}
  git -C /repo apply "/verif/$d/patch.diff" || { echo "$name: patch does not apply" | tee -a seeded/RESULTS.txt; continue; }
  out=$(./check "$id" quick 2>&1); rc=$?
  git -C /repo checkout -- .
  echo "$name rc=$rc $(echo "$out" | grep -m1 '^violation class' | cut -c1-160)" | tee -a seeded/RESULTS.txt
done
