//! Common simulator machinery: PRNG, entropy seam, run driver, minimisation,
//! replay files, known findings and evidence.
use serde::{de::DeserializeOwned, Deserialize, Serialize};
use serde_json::{json, Value};
use std::cell::Cell;
use std::collections::{BTreeMap, BTreeSet};
use std::panic::{catch_unwind, AssertUnwindSafe};
use std::sync::atomic::{AtomicUsize, Ordering};
use std::sync::{Arc, Mutex};
use std::time::Instant;

// ------------------------------------------------------------------ PRNG

/// SplitMix64. The only source of randomness of the simulator.
#[derive(Clone, Debug)]
pub struct Rng(pub u64);

pub fn mix(mut z: u64) -> u64 {
    z = (z ^ (z >> 30)).wrapping_mul(0xBF58_476D_1CE4_E5B9);
    z = (z ^ (z >> 27)).wrapping_mul(0x94D0_49BB_1331_11EB);
    z ^ (z >> 31)
}

/// Sub-seed of run `i` of engine `engine` for the master seed.
pub fn sub_seed(master: u64, engine: &str, i: u64) -> u64 {
    let mut h = mix(master ^ 0xA076_1D64_78BD_642F);
    for b in engine.bytes() {
        h = mix(h ^ b as u64);
    }
    mix(h ^ mix(i.wrapping_add(0x9E37_79B9_7F4A_7C15)))
}

impl Rng {
    pub fn new(seed: u64) -> Self {
        Rng(seed)
    }
    pub fn next(&mut self) -> u64 {
        self.0 = self.0.wrapping_add(0x9E37_79B9_7F4A_7C15);
        mix(self.0)
    }
    /// uniform in 0..n (n > 0)
    pub fn below(&mut self, n: usize) -> usize {
        (self.next() % n as u64) as usize
    }
    /// uniform in lo..=hi
    pub fn range(&mut self, lo: usize, hi: usize) -> usize {
        lo + self.below(hi - lo + 1)
    }
    pub fn f64(&mut self) -> f64 {
        (self.next() >> 11) as f64 / (1u64 << 53) as f64
    }
    /// uniform in [lo, hi], quantised to 9 decimals so that the value survives a
    /// JSON round trip exactly (serde_json's default float parser is exact only on
    /// its fast path; `float_roundtrip` is deliberately not enabled because it would
    /// also change how feos itself parses parameter files)
    pub fn uniform(&mut self, lo: f64, hi: f64) -> f64 {
        q9(lo + (hi - lo) * self.f64())
    }
    pub fn chance(&mut self, p: f64) -> bool {
        self.f64() < p
    }
    pub fn pick<'a, T>(&mut self, v: &'a [T]) -> &'a T {
        &v[self.below(v.len())]
    }
    pub fn shuffle<T>(&mut self, v: &mut [T]) {
        for i in (1..v.len()).rev() {
            let j = self.below(i + 1);
            v.swap(i, j);
        }
    }
    pub fn fork(&mut self) -> Rng {
        Rng(self.next())
    }
}

pub fn q9(x: f64) -> f64 {
    (x * 1e9).round() / 1e9
}

/// What is executed is always the scenario as it would be read back from a replay file.
pub fn roundtrip<S: Serialize + DeserializeOwned>(sc: &S) -> (S, Value) {
    let text = serde_json::to_string(sc).expect("scenario to json");
    let sc: S = serde_json::from_str(&text).expect("scenario from json");
    let v: Value = serde_json::from_str(&text).expect("scenario value");
    (sc, v)
}

/// FNV-style 64 bit hasher used for event-log digests (deterministic, no RandomState).
#[derive(Clone, Debug)]
pub struct Digest(pub u64);

impl Default for Digest {
    fn default() -> Self {
        Digest(0xcbf2_9ce4_8422_2325)
    }
}

impl Digest {
    pub fn u64(&mut self, x: u64) {
        self.0 = mix(self.0 ^ x).wrapping_mul(0x0000_0100_0000_01B3);
    }
    pub fn f64(&mut self, x: f64) {
        self.u64(x.to_bits())
    }
    pub fn str(&mut self, s: &str) {
        for b in s.bytes() {
            self.0 = (self.0 ^ b as u64).wrapping_mul(0x0000_0100_0000_01B3);
        }
        self.u64(s.len() as u64);
    }
    pub fn of_value(v: &Value) -> u64 {
        let mut d = Digest::default();
        d.str(&v.to_string());
        d.0
    }
}

// ------------------------------------------------------------------ entropy seam

thread_local! {
    static ENTROPY: Cell<(u64, u64)> = const { Cell::new((0, 0)) };
}

/// Make every `getrandom(2)` request of the current thread (notably std's
/// `RandomState` keys) a pure function of `seed`. Must be called before the
/// first `HashMap` is created on this thread.
pub fn set_thread_entropy(seed: u64) {
    ENTROPY.with(|e| e.set((seed | 1, 0)));
}

/// Build process-wide fixtures (model pools) on a thread with a fixed entropy seed, so that
/// models whose construction iterates hash maps (group contribution) are bit-identical in
/// every process and independent of which run happens to trigger their construction.
pub fn with_fixed_entropy<T: Send + 'static>(f: impl FnOnce() -> T + Send + 'static) -> T {
    std::thread::Builder::new()
        .stack_size(64 << 20)
        .spawn(move || {
            set_thread_entropy(0xF1C5_ED00_5EED);
            f()
        })
        .expect("spawn fixture thread")
        .join()
        .unwrap_or_else(|_| {
            eprintln!("harness error: building the model pool panicked: {:?}", take_last_panic());
            std::process::exit(2)
        })
}

pub fn entropy_requests() -> u64 {
    ENTROPY.with(|e| e.get().1)
}

/// Interposed `getrandom`: std resolves the libc symbol weakly, so this strong
/// definition in the executable wins. Threads without a configured seed fall
/// through to the real system call.
///
/// # Safety
/// `buf` must be valid for `len` bytes (libc contract).
#[no_mangle]
pub unsafe extern "C" fn getrandom(
    buf: *mut libc::c_void,
    len: libc::size_t,
    flags: libc::c_uint,
) -> libc::ssize_t {
    let (seed, ctr) = ENTROPY.try_with(|e| e.get()).unwrap_or((0, 0));
    if seed == 0 {
        return libc::syscall(libc::SYS_getrandom, buf, len, flags) as libc::ssize_t;
    }
    let out = std::slice::from_raw_parts_mut(buf as *mut u8, len);
    let mut c = ctr;
    for chunk in out.chunks_mut(8) {
        let w = mix(seed ^ mix(c.wrapping_mul(0x9E37_79B9_7F4A_7C15))).to_le_bytes();
        chunk.copy_from_slice(&w[..chunk.len()]);
        c += 1;
    }
    let _ = ENTROPY.try_with(|e| e.set((seed, c)));
    len as libc::ssize_t
}

// ------------------------------------------------------------------ outcomes

#[derive(Clone, Debug, Serialize, Deserialize)]
pub struct Violation {
    /// violation class, stable under minimisation (e.g. "getter-mismatch")
    pub class: String,
    /// signature used to match known findings (call site / input family)
    pub signature: String,
    pub detail: String,
}

#[derive(Clone, Debug, Default)]
pub struct RunOutcome {
    /// digest of the run's event log (for the determinism proof)
    pub digest: u64,
    /// logical time covered (scheduler steps, solver calls, iterations, ...)
    pub steps: u64,
    /// named counters: faults fired, probes hit, operations executed
    pub counters: BTreeMap<String, u64>,
    /// named maxima (worst observed deviations)
    pub maxima: BTreeMap<String, f64>,
    /// hashes of distinct things reached (stated per engine)
    pub distinct: Vec<u64>,
    /// is this run non-trivial by the engine's rule
    pub nontrivial: bool,
    pub violations: Vec<Violation>,
    /// human-readable event trace of the run (schedule and fault events in execution order),
    /// bounded; copied into the replay file of a violation
    pub trace: Vec<String>,
}

impl RunOutcome {
    pub fn count(&mut self, k: &str, n: u64) {
        *self.counters.entry(k.to_string()).or_insert(0) += n;
    }
    pub fn max(&mut self, k: &str, x: f64) {
        let e = self.maxima.entry(k.to_string()).or_insert(0.0);
        if x > *e || x.is_nan() {
            *e = x;
        }
    }
    pub fn note(&mut self, line: String) {
        if self.trace.len() < 400 {
            self.trace.push(line);
        }
    }
    pub fn violate(&mut self, class: &str, signature: &str, detail: String) {
        if self.violations.len() >= 4 {
            return;
        }
        self.violations.push(Violation {
            class: class.to_string(),
            signature: signature.to_string(),
            detail,
        });
    }
}

pub trait Engine: Sync + Send + 'static {
    type Scenario: Serialize + DeserializeOwned + Clone + Send + Sync + 'static;
    fn property(&self) -> &'static str;
    fn name(&self) -> &'static str;
    fn generate(&self, seed: u64, tier: Tier) -> Self::Scenario;
    fn execute(&self, sc: &Self::Scenario) -> RunOutcome;
    /// candidate simplifications, most aggressive first
    fn shrink(&self, sc: &Self::Scenario) -> Vec<Self::Scenario>;
    /// rule text for the evidence file
    fn rule(&self) -> String;
    fn components(&self) -> Value;
    fn assumptions(&self) -> Vec<String>;
    /// engines that enumerate instead of sampling return the full list here
    fn enumerate(&self, _tier: Tier) -> Option<Vec<Self::Scenario>> {
        None
    }
}

#[derive(Clone, Copy, Debug, PartialEq, Eq)]
pub enum Tier {
    Quick,
    Thorough,
}

impl Tier {
    pub fn as_str(&self) -> &'static str {
        match self {
            Tier::Quick => "quick",
            Tier::Thorough => "thorough",
        }
    }
}

#[derive(Clone, Debug)]
pub struct Options {
    pub tier: Tier,
    pub seed: u64,
    pub runs: u64,
    pub workers: usize,
    pub digest_out: Option<String>,
    pub max_wall_s: f64,
    /// debugging aid: execute only this run index
    pub only: Option<u64>,
}

// ------------------------------------------------------------------ panic capture

thread_local! {
    static LAST_PANIC: std::cell::RefCell<Option<String>> = const { std::cell::RefCell::new(None) };
}

pub fn install_quiet_panic_hook() {
    std::panic::set_hook(Box::new(|info| {
        let msg = if let Some(s) = info.payload().downcast_ref::<&str>() {
            s.to_string()
        } else if let Some(s) = info.payload().downcast_ref::<String>() {
            s.clone()
        } else {
            "panic".to_string()
        };
        let loc = info
            .location()
            .map(|l| format!("{}:{}", l.file(), l.line()))
            .unwrap_or_default();
        let _ = LAST_PANIC.try_with(|p| {
            let mut p = p.borrow_mut();
            // keep the first panic of a run: later ones are usually consequences
            if p.is_none() {
                *p = Some(format!("{msg} @ {loc}"));
            }
        });
    }));
}

pub fn take_last_panic() -> Option<String> {
    LAST_PANIC.with(|p| p.borrow_mut().take())
}

/// Run one scenario on a fresh OS thread with its own entropy seed.
pub fn execute_isolated<E: Engine>(
    engine: &Arc<E>,
    sc: &E::Scenario,
    entropy: u64,
) -> RunOutcome {
    let engine = engine.clone();
    let sc = sc.clone();
    let h = std::thread::Builder::new()
        .stack_size(64 << 20)
        .spawn(move || {
            set_thread_entropy(entropy);
            match catch_unwind(AssertUnwindSafe(|| engine.execute(&sc))) {
                Ok(o) => o,
                Err(_) => {
                    let msg = take_last_panic().unwrap_or_else(|| "panic".into());
                    let mut o = RunOutcome::default();
                    // strip addresses / counters so the class is stable
                    o.violate("panic", "panic", msg);
                    o
                }
            }
        })
        .expect("spawn run thread");
    h.join().expect("run thread join")
}

// ------------------------------------------------------------------ known findings

#[derive(Clone, Debug, Deserialize)]
pub struct KnownFinding {
    pub property: String,
    pub signature: String,
    pub what: String,
}

pub fn load_known_findings(property: &str) -> Vec<KnownFinding> {
    let path = verif_dir().join("known_findings.json");
    let Ok(text) = std::fs::read_to_string(&path) else {
        return Vec::new();
    };
    let v: Value = match serde_json::from_str(&text) {
        Ok(v) => v,
        Err(e) => {
            eprintln!("harness error: cannot parse {}: {e}", path.display());
            std::process::exit(2);
        }
    };
    v.get("known")
        .and_then(|k| serde_json::from_value::<Vec<KnownFinding>>(k.clone()).ok())
        .unwrap_or_default()
        .into_iter()
        .filter(|k| k.property == property)
        .collect()
}

pub fn verif_dir() -> std::path::PathBuf {
    std::env::var("VERIF_DIR")
        .map(Into::into)
        .unwrap_or_else(|_| "/verif".into())
}

// ------------------------------------------------------------------ replay files

#[derive(Serialize, Deserialize)]
pub struct ReplayFile {
    pub property: String,
    pub engine: String,
    pub master_seed: u64,
    pub run: u64,
    pub entropy: u64,
    pub violation: Violation,
    pub minimised: bool,
    pub shrink_steps: u64,
    pub scenario: Value,
    /// event trace of the (minimised) failing run: realised schedule and fault events
    #[serde(default)]
    pub trace: Vec<String>,
}

pub fn replay<E: Engine>(engine: Arc<E>, path: &str) -> i32 {
    let text = match std::fs::read_to_string(path) {
        Ok(t) => t,
        Err(e) => {
            eprintln!("harness error: cannot read replay {path}: {e}");
            return 2;
        }
    };
    let rf: ReplayFile = match serde_json::from_str(&text) {
        Ok(r) => r,
        Err(e) => {
            eprintln!("harness error: cannot parse replay {path}: {e}");
            return 2;
        }
    };
    let sc: E::Scenario = match serde_json::from_value(rf.scenario.clone()) {
        Ok(s) => s,
        Err(e) => {
            eprintln!("harness error: scenario in {path} does not match engine: {e}");
            return 2;
        }
    };
    let o = execute_isolated(&engine, &sc, rf.entropy);
    println!("replay digest={:016x} steps={}", o.digest, o.steps);
    if let Some(v) = o.violations.iter().find(|v| v.class == rf.violation.class) {
        println!("reproduced: class={} signature={} {}", v.class, v.signature, v.detail);
        println!("VIOLATION property={} replay={}", rf.property, path);
        1
    } else if let Some(v) = o.violations.first() {
        println!("different violation: class={} {}", v.class, v.detail);
        println!("VIOLATION property={} replay={}", rf.property, path);
        1
    } else {
        println!("not reproduced (the recorded violation does not occur on this tree)");
        0
    }
}

// ------------------------------------------------------------------ driver

struct Agg {
    /// per run: outcome (without its trace), scenario (kept for the first runs and for runs with a
    /// violation only: 400 000 retained scenarios and traces were 40 GB), scenario digest
    outcomes: BTreeMap<u64, (RunOutcome, Value, u64)>,
}

pub fn run_engine<E: Engine>(engine: Arc<E>, opts: &Options) -> i32 {
    let t0 = Instant::now();
    let next = Arc::new(AtomicUsize::new(0));
    let agg = Arc::new(Mutex::new(Agg {
        outcomes: BTreeMap::new(),
    }));
    let stop = Arc::new(AtomicUsize::new(usize::MAX));
    let mut handles = Vec::new();
    let ename = engine.name();
    let known = load_known_findings(engine.property());
    let known_sigs: Arc<BTreeSet<String>> =
        Arc::new(known.iter().map(|k| k.signature.clone()).collect());
    let enumerated: Option<Arc<Vec<E::Scenario>>> = engine.enumerate(opts.tier).map(Arc::new);
    let mut opts = opts.clone();
    if let Some(l) = &enumerated {
        opts.runs = l.len() as u64;
    }
    let opts = &opts;
    for _ in 0..opts.workers.max(1) {
        let engine = engine.clone();
        let next = next.clone();
        let agg = agg.clone();
        let stop = stop.clone();
        let opts = opts.clone();
        let known_sigs = known_sigs.clone();
        let enumerated = enumerated.clone();
        handles.push(std::thread::spawn(move || loop {
            let i = next.fetch_add(1, Ordering::SeqCst);
            if i as u64 >= opts.runs || i > stop.load(Ordering::SeqCst) {
                break;
            }
            if let Some(only) = opts.only {
                if i as u64 != only {
                    continue;
                }
            }
            if t0.elapsed().as_secs_f64() > opts.max_wall_s {
                break;
            }
            let seed = sub_seed(opts.seed, ename, i as u64);
            let (sc, scv) = if let Some(l) = &enumerated {
                roundtrip(&l[i])
            } else {
                // scenario generation must not depend on hash order either
                let engine = engine.clone();
                let tier = opts.tier;
                std::thread::Builder::new()
                    .stack_size(16 << 20)
                    .spawn(move || {
                        set_thread_entropy(mix(seed ^ 0x1234));
                        roundtrip(&engine.generate(seed, tier))
                    })
                    .unwrap()
                    .join()
                    .expect("scenario generation panicked")
            };
            let o = execute_isolated(&engine, &sc, mix(seed ^ 0xE17));
            if o.violations.iter().any(|v| !known_sigs.contains(&v.signature)) {
                // let lower-numbered runs finish, stop handing out higher ones
                stop.fetch_min(i, Ordering::SeqCst);
            }
            let mut o = o;
            // the trace of a replay file comes from the re-execution during minimisation
            o.trace = Vec::new();
            let scd = Digest::of_value(&scv);
            let scv = if !o.violations.is_empty() || i < 256 { scv } else { Value::Null };
            agg.lock().unwrap().outcomes.insert(i as u64, (o, scv, scd));
        }));
    }
    for h in handles {
        h.join().expect("worker panicked");
    }
    let agg = Arc::try_unwrap(agg).ok().unwrap().into_inner().unwrap();
    let search_wall = t0.elapsed().as_secs_f64();

    // ---- aggregate in run order (deterministic)
    let mut counters: BTreeMap<String, u64> = BTreeMap::new();
    let mut maxima: BTreeMap<String, f64> = BTreeMap::new();
    let mut distinct: BTreeSet<u64> = BTreeSet::new();
    let mut distinct_nontrivial: BTreeSet<u64> = BTreeSet::new();
    let mut steps = 0u64;
    let mut samples = Vec::new();
    let mut digest_lines = String::new();
    let mut first_violation: Option<(u64, Violation, Value)> = None;
    let mut contiguous = 0u64;
    for (i, (o, scv, scd)) in &agg.outcomes {
        if *i == contiguous {
            contiguous += 1;
        }
        steps += o.steps;
        for (k, v) in &o.counters {
            *counters.entry(k.clone()).or_insert(0) += v;
        }
        for (k, v) in &o.maxima {
            let e = maxima.entry(k.clone()).or_insert(0.0);
            if *v > *e || v.is_nan() {
                *e = *v;
            }
        }
        for d in &o.distinct {
            distinct.insert(*d);
        }
        if o.nontrivial {
            distinct_nontrivial.insert(*scd);
        }
        if samples.len() < 3 && o.nontrivial && !scv.is_null() {
            samples.push(json!({"run": i, "seed": sub_seed(opts.seed, ename, *i), "scenario": scv, "digest": format!("{:016x}", o.digest), "steps": o.steps}));
        }
        digest_lines.push_str(&format!("{} {:016x}\n", i, o.digest));
        if first_violation.is_none() {
            if let Some(v) = o.violations.first() {
                first_violation = Some((*i, v.clone(), scv.clone()));
            }
        }
    }
    let evaluations = agg.outcomes.len() as u64;
    if let Some(p) = &opts.digest_out {
        if let Err(e) = std::fs::write(p, &digest_lines) {
            eprintln!("harness error: cannot write {p}: {e}");
            return 2;
        }
    }

    // ---- violations: known findings, minimisation, replay
    let mut exit = 0;
    let mut n_viol = 0u64;
    let mut known_hit: BTreeSet<String> = BTreeSet::new();
    let mut unknown: Vec<(u64, Violation, Value)> = Vec::new();
    for (i, (o, scv, _)) in &agg.outcomes {
        for v in &o.violations {
            n_viol += 1;
            if known.iter().any(|k| k.signature == v.signature) {
                known_hit.insert(v.signature.clone());
            } else if unknown.is_empty() {
                unknown.push((*i, v.clone(), scv.clone()));
            }
        }
    }
    for k in &known {
        if known_hit.contains(&k.signature) {
            println!(
                "KNOWN-FINDING: property={} {} [{}]",
                k.property, k.what, k.signature
            );
        }
    }
    let mut replay_path = None;
    if let Some((i, v, scv)) = unknown.into_iter().next() {
        exit = 1;
        let seed = sub_seed(opts.seed, ename, i);
        let entropy = mix(seed ^ 0xE17);
        let sc: E::Scenario =
            serde_json::from_str(&scv.to_string()).expect("scenario roundtrip");
        let (min_sc, min_v, steps_taken, trace) = minimise(&engine, sc, v, entropy, &known);
        let dir = verif_dir().join("replays");
        let _ = std::fs::create_dir_all(&dir);
        let path = dir.join(format!(
            "{}-{}-{}-{}.json",
            engine.property(),
            ename,
            opts.seed,
            i
        ));
        let rf = ReplayFile {
            property: engine.property().to_string(),
            engine: ename.to_string(),
            master_seed: opts.seed,
            run: i,
            entropy,
            violation: min_v.clone(),
            minimised: steps_taken > 0,
            shrink_steps: steps_taken,
            scenario: serde_json::to_value(&min_sc).unwrap(),
            trace,
        };
        if let Err(e) = std::fs::write(&path, serde_json::to_string_pretty(&rf).unwrap()) {
            eprintln!("harness error: cannot write replay {}: {e}", path.display());
            return 2;
        }
        // confirm in a fresh process
        let confirmed = std::process::Command::new(std::env::current_exe().unwrap())
            .args([ename, "--replay", path.to_str().unwrap()])
            .output()
            .map(|o| {
                o.status.code() == Some(1)
                    && String::from_utf8_lossy(&o.stdout).contains("reproduced: class=")
            })
            .unwrap_or(false);
        println!(
            "violation class={} signature={} run={} seed={} shrink_steps={} replay_confirmed_in_fresh_process={}",
            min_v.class, min_v.signature, i, seed, steps_taken, confirmed
        );
        println!("detail: {}", min_v.detail);
        println!(
            "VIOLATION property={} replay={}",
            engine.property(),
            path.display()
        );
        replay_path = Some(path.display().to_string());
    }

    // ---- evidence
    let wall = t0.elapsed().as_secs_f64();
    let mut cov = json!({
        "evaluations": evaluations,
        "distinct_nontrivial": distinct_nontrivial.len(),
        "rule": engine.rule(),
        "samples": samples,
        "exhaustive": false,
        "engine": ename,
        "runs_requested": opts.runs,
        "runs_contiguous_from_zero": contiguous,
        "workers": opts.workers,
        "runs_per_hour": if search_wall > 0.0 { (evaluations as f64 / search_wall * 3600.0).round() } else { 0.0 },
        "search_wall_s": search_wall,
        "logical_time_steps": steps,
        "counters": counters,
        "worst_observed": maxima,
        "distinct_reached": distinct.len(),
        "components": engine.components(),
        "known_findings_hit": known_hit.iter().collect::<Vec<_>>(),
    });
    if let Some(p) = replay_path {
        cov["replay"] = json!(p);
    }
    let ev = json!({
        "property_id": engine.property(),
        "tier": opts.tier.as_str(),
        "seed": opts.seed,
        "level": "exploration",
        "coverage": cov,
        "assumptions": engine.assumptions(),
        "wall_s": wall,
        "violations": n_viol,
    });
    write_evidence(engine.property(), ename, &ev);
    println!(
        "{} {}: runs={} nontrivial_distinct={} steps={} wall={:.1}s violations={}",
        engine.property(),
        ename,
        evaluations,
        distinct_nontrivial.len(),
        steps,
        wall,
        n_viol
    );
    exit
}

/// Each engine writes its own part file; the `check` script merges the parts of
/// one property into /verif/evidence/<id>.json.
pub fn write_evidence(property: &str, engine: &str, ev: &Value) {
    let dir = verif_dir().join("evidence").join("parts");
    let _ = std::fs::create_dir_all(&dir);
    let path = dir.join(format!("{property}.{engine}.json"));
    if let Err(e) = std::fs::write(&path, serde_json::to_string_pretty(ev).unwrap()) {
        eprintln!("harness error: cannot write {}: {e}", path.display());
        std::process::exit(2);
    }
}

fn minimise<E: Engine>(
    engine: &Arc<E>,
    mut sc: E::Scenario,
    mut v: Violation,
    entropy: u64,
    known: &[KnownFinding],
) -> (E::Scenario, Violation, u64, Vec<String>) {
    let t0 = Instant::now();
    let mut steps = 0u64;
    let mut trace = execute_isolated(engine, &roundtrip(&sc).0, entropy).trace;
    'outer: loop {
        if t0.elapsed().as_secs_f64() > 120.0 {
            break;
        }
        for cand in engine.shrink(&sc) {
            let (cand, _) = roundtrip(&cand);
            let o = execute_isolated(engine, &cand, entropy);
            if let Some(v2) = o
                .violations
                .iter()
                .find(|x| x.class == v.class && !known.iter().any(|k| k.signature == x.signature))
            {
                sc = cand;
                v = v2.clone();
                trace = o.trace.clone();
                steps += 1;
                continue 'outer;
            }
            if t0.elapsed().as_secs_f64() > 120.0 {
                break 'outer;
            }
        }
        break;
    }
    (sc, v, steps, trace)
}

// ------------------------------------------------------------------ numeric helpers

/// relative deviation with an absolute floor; NaN pattern must match
pub fn deviation(x: f64, r: f64, floor: f64) -> f64 {
    if x.is_nan() || r.is_nan() {
        return if x.is_nan() && r.is_nan() { 0.0 } else { f64::INFINITY };
    }
    if x == r {
        return 0.0;
    }
    if x.is_infinite() || r.is_infinite() {
        return f64::INFINITY;
    }
    (x - r).abs() / (x.abs().max(r.abs()) + floor)
}
