# Sourced by mutants.sh and seeded.sh: the regression over deliberately broken trees runs on a
# scratch copy of /repo's working tree, never on /repo itself (an interrupted run once left a
# mutation behind in /repo). The copy, its simulator workspace and its build output are removed
# on exit; /verif/evidence is saved and restored so that only runs on /repo write evidence.
SCRATCH_ROOT=${VERIF_SCRATCH:-/root/.feos-verif-scratch}
SCRATCH_REPO=$SCRATCH_ROOT/feos
scratch_cleanup() {
  rm -rf "$SCRATCH_ROOT"
  if [ -d "$EVID_SAVE" ]; then rm -rf /verif/evidence; mv "$EVID_SAVE" /verif/evidence; fi
}
scratch_setup() {
  rm -rf "$SCRATCH_ROOT"; mkdir -p "$SCRATCH_REPO" || exit 2
  EVID_SAVE=$(mktemp -d /root/.feos-verif-evidence.XXXXXX) && rmdir "$EVID_SAVE" && cp -a /verif/evidence "$EVID_SAVE" || exit 2
  trap scratch_cleanup EXIT
  trap 'exit 130' INT TERM HUP
  rsync -a --exclude target --exclude .git /repo/ "$SCRATCH_REPO/" || exit 2
  export VERIF_REPO=$SCRATCH_REPO VERIF_INCREMENTAL=1
  # warm build of both configurations on the unchanged copy
  /verif/check build >/dev/null || { echo "harness error: scratch build failed"; exit 2; }
}
scratch_reset() { rsync -rlpc --delete --exclude target --exclude .git /repo/ "$SCRATCH_REPO/"; } # no -t: a restored file gets a new mtime, so cargo rebuilds it
