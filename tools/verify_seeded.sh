#!/bin/bash
# Confirm a sub-agent's seeded change myself: demo passes without / fails with the change,
# existing suite passes with the change.
# Usage: verify_seeded.sh <short> <worktree> <out-dir> <demo-file> [dest-dir [extra-data-dir]]
# (worktree is left with the change applied and otherwise clean)
short=$1; wt=$2; out=$3; demo=$4; dest=${5:-tests}; data=$6
export CARGO_NET_OFFLINE=true
cd "$wt" || exit 2
name=$(basename "$demo" .rs)
log=$out/verify.log; : > "$log"
git apply -R --check "$out/patch.diff" 2>/dev/null || git apply "$out/patch.diff" || exit 2
cp "$demo" "$dest/"
[ -n "$data" ] && cp -r "$data" "$dest/"
pkg=""; case "$dest" in feos-core/*) pkg="-p feos-core" ;; feos-dft/*) pkg="-p feos-dft" ;; esac
[ -z "$pkg" ] && pkg="--workspace"
git apply -R "$out/patch.diff" || exit 2
r=$(cargo test --offline $pkg --test "$name" 2>&1 | grep "^test result" | head -1)
echo "$short demo WITHOUT change: $r" | tee -a "$log"
git apply "$out/patch.diff" || exit 2
r=$(cargo test --offline $pkg --test "$name" 2>&1 | grep "^test result" | head -1)
echo "$short demo WITH change: $r" | tee -a "$log"
rm "$dest/$(basename "$demo")"
[ -n "$data" ] && rm -r "$dest/$(basename "$data")"
r=$(cargo test --workspace --no-fail-fast --offline 2>&1 | grep "^test result" | awk '{p+=$4; f+=$6} END {print p" passed "f" failed"}')
echo "$short suite WITH change: $r" | tee -a "$log"
git status --short | tee -a "$log"
