#!/bin/bash
# Regression over the kept seeded changes: apply each to a scratch copy of /repo, run the
# matching quick check on the copy, expect a violation (exit 1). Results in
# /verif/seeded/RESULTS.txt. /repo itself is never modified. Usage: tools/seeded.sh [glob-prefix]
cd /verif || exit 2
pat=${1:-C}
. /verif/tools/scratch.sh
scratch_setup
[ "$pat" = C ] && : > seeded/RESULTS.txt
for d in seeded/${pat}*/; do
  name=$(basename "$d"); id=${name%%-*}
  scratch_reset
  (cd "$SCRATCH_REPO" && git apply "/verif/$d/patch.diff") || { echo "$name: patch does not apply" | tee -a seeded/RESULTS.txt; continue; }
  out=$(./check "$id" quick 2>&1); rc=$?
  echo "$name rc=$rc $(echo "$out" | grep -m1 '^violation class' | cut -c1-160)" | tee -a seeded/RESULTS.txt
done
