//! Deterministic stand-in for `rayon-core` 1.13.
//!
//! The real `rayon` crate (iterators, plumbing, collect) and ndarray's parallel
//! adaptors run unmodified on top of this crate. Everything the real
//! rayon-core leaves to the work-stealing scheduler is decided here by a
//! seeded PRNG owned by the simulator:
//!
//! * `join_context(a, b)`: whether `b` is "stolen" (runs with
//!   `migrated() == true`), and if stolen whether it runs entirely *before* `a`
//!   or, in the `feos_verif_shuttle` build, *concurrently* with `a` on a scoped
//!   shuttle thread whose interleaving is decided by shuttle's seeded scheduler;
//! * `current_num_threads()`: the simulated pool size, which drives rayon's
//!   adaptive splitter;
//! * `scope`: the order in which spawned tasks run.
//!
//! The contract relied upon is rayon-core's documented one: `join` runs both
//! closures to completion, in any order or in parallel, and returns both
//! results in argument order.
use std::cell::RefCell;
use std::error::Error;
use std::fmt;
use std::marker::PhantomData;

/// Simulator control surface.
pub mod sim {
    use super::*;

    #[derive(Clone, Debug, Default)]
    pub struct Stats {
        pub joins: u64,
        pub inline: u64,
        pub stolen_before: u64,
        pub stolen_concurrent: u64,
        pub scope_tasks: u64,
        pub installs: u64,
        pub max_live_stolen: u64,
    }

    pub(crate) struct State {
        pub rng: u64,
        pub pool: usize,
        pub steal_permille: u32,
        pub concurrent_permille: u32,
        pub live_stolen: u64,
        pub stats: Stats,
        /// decision log: 0 inline, 1 stolen-before, 2 stolen-concurrent
        pub log: Vec<u8>,
    }

    thread_local! {
        pub(crate) static STATE: RefCell<State> = const { RefCell::new(State {
            rng: 0x9E37_79B9_7F4A_7C15,
            pool: 1,
            steal_permille: 0,
            concurrent_permille: 0,
            live_stolen: 0,
            stats: Stats { joins: 0, inline: 0, stolen_before: 0, stolen_concurrent: 0, scope_tasks: 0, installs: 0, max_live_stolen: 0 },
            log: Vec::new(),
        }) };
    }

    /// Configure the stand-in for the current run (call on the thread that runs the simulation).
    pub fn configure(seed: u64, steal_permille: u32, concurrent_permille: u32) {
        STATE.with(|s| {
            let mut s = s.borrow_mut();
            s.rng = seed ^ 0x5851_F42D_4C95_7F2D;
            s.pool = 1;
            s.steal_permille = steal_permille;
            s.concurrent_permille = concurrent_permille;
            s.live_stolen = 0;
            s.stats = Stats::default();
            s.log.clear();
        })
    }

    /// Statistics and the decision log since the last `configure`.
    pub fn take() -> (Stats, Vec<u8>) {
        STATE.with(|s| {
            let mut s = s.borrow_mut();
            (std::mem::take(&mut s.stats), std::mem::take(&mut s.log))
        })
    }

    pub(crate) fn next(s: &mut State) -> u64 {
        s.rng = s.rng.wrapping_add(0x9E37_79B9_7F4A_7C15);
        let mut z = s.rng;
        z = (z ^ (z >> 30)).wrapping_mul(0xBF58_476D_1CE4_E5B9);
        z = (z ^ (z >> 27)).wrapping_mul(0x94D0_49BB_1331_11EB);
        z ^ (z >> 31)
    }

    #[derive(Clone, Copy, PartialEq)]
    pub(crate) enum Decision {
        Inline,
        StolenBefore,
        StolenConcurrent,
    }

    pub(crate) fn decide_join() -> Decision {
        STATE.with(|s| {
            let mut s = s.borrow_mut();
            s.stats.joins += 1;
            let r = (next(&mut s) % 1000) as u32;
            // a job can only be stolen if an idle worker exists
            let idle = (s.pool as u64).saturating_sub(1 + s.live_stolen) > 0;
            let d = if idle && r < s.steal_permille {
                let r2 = (next(&mut s) % 1000) as u32;
                if cfg!(feos_verif_shuttle) && r2 < s.concurrent_permille {
                    Decision::StolenConcurrent
                } else {
                    Decision::StolenBefore
                }
            } else {
                Decision::Inline
            };
            match d {
                Decision::Inline => {
                    s.stats.inline += 1;
                    s.log.push(0)
                }
                Decision::StolenBefore => {
                    s.stats.stolen_before += 1;
                    s.log.push(1)
                }
                Decision::StolenConcurrent => {
                    s.stats.stolen_concurrent += 1;
                    s.live_stolen += 1;
                    if s.live_stolen > s.stats.max_live_stolen {
                        s.stats.max_live_stolen = s.live_stolen;
                    }
                    s.log.push(2)
                }
            }
            d
        })
    }

    pub(crate) fn end_concurrent() {
        STATE.with(|s| s.borrow_mut().live_stolen -= 1)
    }

    pub(crate) fn pick(n: usize) -> usize {
        STATE.with(|s| (next(&mut s.borrow_mut()) % n as u64) as usize)
    }
}

use sim::Decision;

// Index of the simulated pool worker executing the current code (None outside a pool).
// In the sched build this must be local to the *shuttle* thread.
#[cfg(feos_verif_shuttle)]
shuttle::thread_local! {
    static WORKER: std::cell::Cell<Option<usize>> = std::cell::Cell::new(None);
}
#[cfg(not(feos_verif_shuttle))]
thread_local! {
    static WORKER: std::cell::Cell<Option<usize>> = const { std::cell::Cell::new(None) };
}

fn other_worker() -> usize {
    let pool = current_num_threads().max(2);
    let me = WORKER.with(|w| w.get()).unwrap_or(0);
    let k = 1 + sim::pick(pool - 1);
    (me + k) % pool
}

// ---------------------------------------------------------------- join

/// Provides context to a closure called by `join_context`.
#[derive(Debug)]
pub struct FnContext {
    migrated: bool,
    _marker: PhantomData<*mut ()>,
}

impl FnContext {
    fn new(migrated: bool) -> Self {
        FnContext {
            migrated,
            _marker: PhantomData,
        }
    }
    /// Returns `true` if the closure was called from a different thread
    /// than it was provided from.
    pub fn migrated(&self) -> bool {
        self.migrated
    }
}

pub fn join<A, B, RA, RB>(oper_a: A, oper_b: B) -> (RA, RB)
where
    A: FnOnce() -> RA + Send,
    B: FnOnce() -> RB + Send,
    RA: Send,
    RB: Send,
{
    join_context(|_| oper_a(), |_| oper_b())
}

pub fn join_context<A, B, RA, RB>(oper_a: A, oper_b: B) -> (RA, RB)
where
    A: FnOnce(FnContext) -> RA + Send,
    B: FnOnce(FnContext) -> RB + Send,
    RA: Send,
    RB: Send,
{
    match sim::decide_join() {
        Decision::Inline => {
            let ra = oper_a(FnContext::new(false));
            let rb = oper_b(FnContext::new(false));
            (ra, rb)
        }
        Decision::StolenBefore => {
            let me = WORKER.with(|w| w.get());
            let thief = other_worker();
            WORKER.with(|w| w.set(Some(thief)));
            let rb = oper_b(FnContext::new(true));
            WORKER.with(|w| w.set(me));
            let ra = oper_a(FnContext::new(false));
            (ra, rb)
        }
        Decision::StolenConcurrent => concurrent(oper_a, oper_b),
    }
}

#[cfg(feos_verif_shuttle)]
fn concurrent<A, B, RA, RB>(oper_a: A, oper_b: B) -> (RA, RB)
where
    A: FnOnce(FnContext) -> RA + Send,
    B: FnOnce(FnContext) -> RB + Send,
    RA: Send,
    RB: Send,
{
    let pool = current_num_threads();
    let thief = other_worker();
    // shuttle 0.9.3's scoped threads cannot be nested safely (the scope owner is
    // unblocked by *any* scope it owns, and before results are published), so the
    // stolen job runs on a plain shuttle thread with the lifetime erased, exactly as
    // rayon-core does with its job references: this frame does not return (or
    // unwind past `join`) before the job has finished.
    struct SendPtr<T>(*mut T);
    unsafe impl<T> Send for SendPtr<T> {}
    let mut rb: Option<RB> = None;
    let slot = SendPtr(&mut rb as *mut Option<RB>);
    let job: Box<dyn FnOnce() + Send + '_> = Box::new(move || {
        let slot = slot;
        // the stolen job runs "inside the pool" as well
        sim::STATE.with(|s| s.borrow_mut().pool = pool);
        WORKER.with(|w| w.set(Some(thief)));
        let r = oper_b(FnContext::new(true));
        // SAFETY: the spawning frame is blocked in `join` until this thread is done
        unsafe { *slot.0 = Some(r) };
    });
    // SAFETY: see above; the borrowed environment outlives the thread
    let job: Box<dyn FnOnce() + Send + 'static> = unsafe { std::mem::transmute(job) };
    let handle = shuttle::thread::spawn(move || job());
    let ra = oper_a(FnContext::new(false));
    handle.join().expect("stolen job panicked");
    let r = (ra, rb.expect("join: stolen closure did not finish"));
    sim::end_concurrent();
    r
}

#[cfg(not(feos_verif_shuttle))]
fn concurrent<A, B, RA, RB>(oper_a: A, oper_b: B) -> (RA, RB)
where
    A: FnOnce(FnContext) -> RA + Send,
    B: FnOnce(FnContext) -> RB + Send,
    RA: Send,
    RB: Send,
{
    sim::end_concurrent();
    let me = WORKER.with(|w| w.get());
    let thief = other_worker();
    WORKER.with(|w| w.set(Some(thief)));
    let rb = oper_b(FnContext::new(true));
    WORKER.with(|w| w.set(me));
    let ra = oper_a(FnContext::new(false));
    (ra, rb)
}

// ---------------------------------------------------------------- scope

type Task<'scope> = Box<dyn FnOnce(&ScopeInner<'scope>) + Send + 'scope>;

struct ScopeInner<'scope> {
    queue: std::sync::Mutex<Vec<Task<'scope>>>,
    fifo: bool,
}

impl<'scope> ScopeInner<'scope> {
    fn drain(&self) {
        loop {
            let task = {
                let mut q = self.queue.lock().unwrap();
                if q.is_empty() {
                    break;
                }
                let i = sim::pick(q.len());
                q.remove(i)
            };
            sim::STATE.with(|s| s.borrow_mut().stats.scope_tasks += 1);
            task(self);
        }
    }
}

#[repr(transparent)]
pub struct Scope<'scope> {
    inner: ScopeInner<'scope>,
}

#[repr(transparent)]
pub struct ScopeFifo<'scope> {
    inner: ScopeInner<'scope>,
}

impl<'scope> Scope<'scope> {
    pub fn spawn<BODY>(&self, body: BODY)
    where
        BODY: FnOnce(&Scope<'scope>) + Send + 'scope,
    {
        let task: Task<'scope> = Box::new(move |inner: &ScopeInner<'scope>| {
            // SAFETY: Scope is a transparent wrapper around ScopeInner
            let scope: &Scope<'scope> = unsafe { &*(inner as *const ScopeInner<'scope> as *const Scope<'scope>) };
            body(scope)
        });
        self.inner.queue.lock().unwrap().push(task);
    }

    pub fn spawn_broadcast<BODY>(&self, body: BODY)
    where
        BODY: Fn(&Scope<'scope>, BroadcastContext<'_>) + Send + Sync + 'scope,
    {
        let n = current_num_threads();
        let task: Task<'scope> = Box::new(move |inner: &ScopeInner<'scope>| {
            let scope: &Scope<'scope> = unsafe { &*(inner as *const ScopeInner<'scope> as *const Scope<'scope>) };
            for index in 0..n {
                body(scope, BroadcastContext::new(index, n));
            }
        });
        self.inner.queue.lock().unwrap().push(task);
    }
}

impl<'scope> ScopeFifo<'scope> {
    pub fn spawn_fifo<BODY>(&self, body: BODY)
    where
        BODY: FnOnce(&ScopeFifo<'scope>) + Send + 'scope,
    {
        let task: Task<'scope> = Box::new(move |inner: &ScopeInner<'scope>| {
            let scope: &ScopeFifo<'scope> = unsafe { &*(inner as *const ScopeInner<'scope> as *const ScopeFifo<'scope>) };
            body(scope)
        });
        self.inner.queue.lock().unwrap().push(task);
    }

    pub fn spawn_broadcast<BODY>(&self, body: BODY)
    where
        BODY: Fn(&ScopeFifo<'scope>, BroadcastContext<'_>) + Send + Sync + 'scope,
    {
        let n = current_num_threads();
        let task: Task<'scope> = Box::new(move |inner: &ScopeInner<'scope>| {
            let scope: &ScopeFifo<'scope> = unsafe { &*(inner as *const ScopeInner<'scope> as *const ScopeFifo<'scope>) };
            for index in 0..n {
                body(scope, BroadcastContext::new(index, n));
            }
        });
        self.inner.queue.lock().unwrap().push(task);
    }
}

impl fmt::Debug for Scope<'_> {
    fn fmt(&self, f: &mut fmt::Formatter<'_>) -> fmt::Result {
        f.debug_struct("Scope").field("fifo", &self.inner.fifo).finish()
    }
}
impl fmt::Debug for ScopeFifo<'_> {
    fn fmt(&self, f: &mut fmt::Formatter<'_>) -> fmt::Result {
        f.debug_struct("ScopeFifo").field("fifo", &self.inner.fifo).finish()
    }
}

pub fn scope<'scope, OP, R>(op: OP) -> R
where
    OP: FnOnce(&Scope<'scope>) -> R + Send,
    R: Send,
{
    in_place_scope(op)
}

pub fn in_place_scope<'scope, OP, R>(op: OP) -> R
where
    OP: FnOnce(&Scope<'scope>) -> R,
{
    let scope = Scope {
        inner: ScopeInner {
            queue: std::sync::Mutex::new(Vec::new()),
            fifo: false,
        },
    };
    let r = op(&scope);
    scope.inner.drain();
    r
}

pub fn scope_fifo<'scope, OP, R>(op: OP) -> R
where
    OP: FnOnce(&ScopeFifo<'scope>) -> R + Send,
    R: Send,
{
    in_place_scope_fifo(op)
}

pub fn in_place_scope_fifo<'scope, OP, R>(op: OP) -> R
where
    OP: FnOnce(&ScopeFifo<'scope>) -> R,
{
    let scope = ScopeFifo {
        inner: ScopeInner {
            queue: std::sync::Mutex::new(Vec::new()),
            fifo: true,
        },
    };
    let r = op(&scope);
    scope.inner.drain();
    r
}

// ---------------------------------------------------------------- spawn / broadcast

pub fn spawn<F>(func: F)
where
    F: FnOnce() + Send + 'static,
{
    func()
}

pub fn spawn_fifo<F>(func: F)
where
    F: FnOnce() + Send + 'static,
{
    func()
}

pub struct BroadcastContext<'a> {
    index: usize,
    num_threads: usize,
    _marker: PhantomData<&'a mut dyn Fn()>,
}

impl BroadcastContext<'_> {
    fn new(index: usize, num_threads: usize) -> Self {
        BroadcastContext {
            index,
            num_threads,
            _marker: PhantomData,
        }
    }
    pub fn index(&self) -> usize {
        self.index
    }
    pub fn num_threads(&self) -> usize {
        self.num_threads
    }
}

impl fmt::Debug for BroadcastContext<'_> {
    fn fmt(&self, f: &mut fmt::Formatter<'_>) -> fmt::Result {
        f.debug_struct("BroadcastContext")
            .field("index", &self.index)
            .field("num_threads", &self.num_threads)
            .finish()
    }
}

pub fn broadcast<OP, R>(op: OP) -> Vec<R>
where
    OP: Fn(BroadcastContext<'_>) -> R + Sync,
    R: Send,
{
    let n = current_num_threads();
    (0..n).map(|i| op(BroadcastContext::new(i, n))).collect()
}

pub fn spawn_broadcast<OP>(op: OP)
where
    OP: Fn(BroadcastContext<'_>) + Send + Sync + 'static,
{
    let n = current_num_threads();
    for i in 0..n {
        op(BroadcastContext::new(i, n));
    }
}

// ---------------------------------------------------------------- pool

pub fn max_num_threads() -> usize {
    1 << 16
}

pub fn current_num_threads() -> usize {
    sim::STATE.with(|s| s.borrow().pool)
}

pub fn current_thread_index() -> Option<usize> {
    WORKER.with(|w| w.get())
}

pub fn current_thread_has_pending_tasks() -> Option<bool> {
    Some(false)
}

#[derive(Clone, Copy, Debug, PartialEq, Eq)]
pub enum Yield {
    Executed,
    Idle,
}

pub fn yield_now() -> Option<Yield> {
    Some(Yield::Idle)
}

pub fn yield_local() -> Option<Yield> {
    Some(Yield::Idle)
}

#[derive(Debug)]
pub struct ThreadPoolBuildError {
    _private: (),
}

impl Error for ThreadPoolBuildError {}

impl fmt::Display for ThreadPoolBuildError {
    fn fmt(&self, f: &mut fmt::Formatter<'_>) -> fmt::Result {
        f.write_str("simulated thread pool build error")
    }
}

pub struct ThreadBuilder {
    index: usize,
}

impl ThreadBuilder {
    pub fn index(&self) -> usize {
        self.index
    }
    pub fn name(&self) -> Option<&str> {
        None
    }
    pub fn stack_size(&self) -> Option<usize> {
        None
    }
    pub fn run(self) {}
}

impl fmt::Debug for ThreadBuilder {
    fn fmt(&self, f: &mut fmt::Formatter<'_>) -> fmt::Result {
        f.debug_struct("ThreadBuilder").field("index", &self.index).finish()
    }
}

#[derive(Debug, Default)]
pub struct ThreadPoolBuilder {
    num_threads: usize,
}

impl ThreadPoolBuilder {
    pub fn new() -> Self {
        Self::default()
    }
    pub fn num_threads(mut self, num_threads: usize) -> Self {
        self.num_threads = num_threads;
        self
    }
    pub fn thread_name<F>(self, _closure: F) -> Self
    where
        F: FnMut(usize) -> String + 'static,
    {
        self
    }
    pub fn stack_size(self, _stack_size: usize) -> Self {
        self
    }
    pub fn use_current_thread(self) -> Self {
        self
    }
    pub fn breadth_first(self) -> Self {
        self
    }
    pub fn build(self) -> Result<ThreadPool, ThreadPoolBuildError> {
        Ok(ThreadPool {
            num_threads: if self.num_threads == 0 { 1 } else { self.num_threads },
        })
    }
    pub fn build_global(self) -> Result<(), ThreadPoolBuildError> {
        let n = if self.num_threads == 0 { 1 } else { self.num_threads };
        sim::STATE.with(|s| s.borrow_mut().pool = n);
        Ok(())
    }
}

#[derive(Debug)]
pub struct ThreadPool {
    num_threads: usize,
}

impl ThreadPool {
    pub fn install<OP, R>(&self, op: OP) -> R
    where
        OP: FnOnce() -> R + Send,
        R: Send,
    {
        let old = sim::STATE.with(|s| {
            let mut s = s.borrow_mut();
            s.stats.installs += 1;
            std::mem::replace(&mut s.pool, self.num_threads)
        });
        let old_worker = WORKER.with(|w| w.replace(Some(0)));
        let r = op();
        WORKER.with(|w| w.set(old_worker));
        sim::STATE.with(|s| s.borrow_mut().pool = old);
        r
    }
    pub fn current_num_threads(&self) -> usize {
        self.num_threads
    }
    pub fn current_thread_index(&self) -> Option<usize> {
        None
    }
    pub fn current_thread_has_pending_tasks(&self) -> Option<bool> {
        None
    }
    pub fn join<A, B, RA, RB>(&self, oper_a: A, oper_b: B) -> (RA, RB)
    where
        A: FnOnce() -> RA + Send,
        B: FnOnce() -> RB + Send,
        RA: Send,
        RB: Send,
    {
        self.install(|| join(oper_a, oper_b))
    }
    pub fn scope<'scope, OP, R>(&self, op: OP) -> R
    where
        OP: FnOnce(&Scope<'scope>) -> R + Send,
        R: Send,
    {
        self.install(|| scope(op))
    }
    pub fn scope_fifo<'scope, OP, R>(&self, op: OP) -> R
    where
        OP: FnOnce(&ScopeFifo<'scope>) -> R + Send,
        R: Send,
    {
        self.install(|| scope_fifo(op))
    }
    pub fn in_place_scope<'scope, OP, R>(&self, op: OP) -> R
    where
        OP: FnOnce(&Scope<'scope>) -> R,
    {
        in_place_scope(op)
    }
    pub fn in_place_scope_fifo<'scope, OP, R>(&self, op: OP) -> R
    where
        OP: FnOnce(&ScopeFifo<'scope>) -> R,
    {
        in_place_scope_fifo(op)
    }
    pub fn spawn<OP>(&self, op: OP)
    where
        OP: FnOnce() + Send + 'static,
    {
        op()
    }
    pub fn spawn_fifo<OP>(&self, op: OP)
    where
        OP: FnOnce() + Send + 'static,
    {
        op()
    }
    pub fn spawn_broadcast<OP>(&self, op: OP)
    where
        OP: Fn(BroadcastContext<'_>) + Send + Sync + 'static,
    {
        for i in 0..self.num_threads {
            op(BroadcastContext::new(i, self.num_threads));
        }
    }
    pub fn broadcast<OP, R>(&self, op: OP) -> Vec<R>
    where
        OP: Fn(BroadcastContext<'_>) -> R + Sync,
        R: Send,
    {
        (0..self.num_threads)
            .map(|i| op(BroadcastContext::new(i, self.num_threads)))
            .collect()
    }
    pub fn yield_now(&self) -> Option<Yield> {
        None
    }
    pub fn yield_local(&self) -> Option<Yield> {
        None
    }
}
