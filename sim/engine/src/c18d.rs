//! C18 (drivers) — the history-carrying DFT drivers: adsorption / desorption / equilibrium
//! isotherms (every point starts from the previous solution, with one retry from a fresh
//! profile) and surface tension diagrams (every interface optionally starts from the previous
//! one). Each profile a driver hands out is a reported success and is judged like a single
//! solve; on top of that the driver's bookkeeping is checked: one entry per requested point, in
//! request order, at the requested bulk state, a failed point only where a fresh stand-alone
//! solve fails too, accessor arrays aligned with the profiles.
use crate::c18::{build_solver, gen_stage, guarded, independent_residual, pool, Stage, F};
use crate::common::*;
use feos_core::{Contributions, PhaseDiagram, PhaseEquilibrium, ReferenceSystem, SolverOptions, State, StateBuilder};
use feos_dft::adsorption::{Adsorption1D, ExternalPotential, Pore1D, PoreProfile1D, PoreSpecification};
use feos_dft::interface::{PlanarInterface, SurfaceTensionDiagram};
use feos_dft::{DFTProfile, DFTSolver, Geometry, HelmholtzEnergyFunctional};
use ndarray::{arr1, Array1, Axis, Ix1};
use quantity::{Density, Moles, Pressure, ANGSTROM, KELVIN, MOL};
use serde::{Deserialize, Serialize};
use serde_json::{json, Value};

#[derive(Serialize, Deserialize, Clone, Debug)]
pub enum DKind {
    /// mode 0 adsorption, 1 desorption, 2 equilibrium
    Isotherm { geometry: u8, size: f64, eps_ss: f64, tf: f64, p_fracs: Vec<f64>, mode: u8 },
    Diagram { tf_min: f64, npoints: usize, l_grid: f64, init_densities: Option<bool> },
}

#[derive(Serialize, Deserialize, Clone, Debug)]
pub struct DScenario {
    pub system: usize,
    pub kind: DKind,
    pub n_grid: usize,
    /// None = the library's default solver
    pub chain: Option<Vec<Stage>>,
}

pub struct C18Driver;

fn tol_of(chain: &Option<Vec<Stage>>) -> f64 {
    10f64.powf(-chain.as_ref().and_then(|c| c.last()).map_or(11.0, |s| s.tol_exp))
}

/// the checks every handed-out profile has to pass (S1, S1c, S2); returns false if the density is invalid
fn judge_profile(out: &mut RunOutcome, dg: &mut Digest, p: &DFTProfile<Ix1, F>, tol: f64, geometry: &str, what: &str) -> bool {
    let rho = p.density.to_reduced();
    for x in rho.iter().step_by(rho.len() / 8 + 1) {
        dg.f64(*x);
    }
    let bad = rho.iter().zip(p.external_potential.iter()).filter(|(r, v)| !r.is_finite() || (**v < 49.0 && **r <= 0.0)).count();
    if bad > 0 {
        let zeros = rho.iter().zip(p.external_potential.iter()).all(|(r, v)| r.is_finite() && (*r >= 0.0 || *v >= 49.0));
        let hetero = {
            use feos_core::Components;
            p.dft.component_index().len() > p.dft.components()
        };
        let sig = if zeros { "density:exact-zeros".to_string() } else { format!("density:negative-or-non-finite:{}:{geometry}", if hetero { "heterosegmented" } else { "homosegmented" }) };
        out.violate("density-invalid", &sig, format!("{what}: {bad} grid points with non-finite or non-positive density in a profile the driver returned as solved"));
        return false;
    }
    out.count("oracle.profile_judged", 1);
    match p.residual(false) {
        Ok((res, res_bulk, rn_lib)) => {
            let ss: f64 = res.iter().map(|x| x * x).sum::<f64>() + res_bulk.iter().map(|x| x * x).sum::<f64>();
            let rn = (ss / (res.len() + res_bulk.len()) as f64).sqrt().max(rn_lib);
            out.max("residual_over_tol", rn / tol);
            if !(rn <= tol * (1.0 + 1e-6)) {
                out.violate("residual-above-tolerance", "residual", format!("{what}: the driver returned the profile as solved, recomputed residual {rn:e} > tolerance {tol:e}"));
            }
        }
        Err(e) => out.violate("residual-error", "residual", format!("{what}: residual of a returned profile cannot be evaluated: {e}")),
    }
    if let Some(rn) = independent_residual(p) {
        out.max("independent_residual_over_tol", rn / tol);
        if !(rn <= tol * (1.0 + 1e-3)) {
            out.violate("independent-residual-above-tolerance", "residual-independent", format!("{what}: Euler-Lagrange residual assembled from the functional derivative is {rn:e} > tolerance {tol:e}"));
        }
    }
    true
}

fn moles_of(binary_x: Option<f64>) -> Moles<Array1<f64>> {
    match binary_x {
        None => arr1(&[1.0]) * MOL,
        Some(x) => arr1(&[x, 1.0 - x]) * MOL,
    }
}

/// the bulk state the isotherm driver builds for a pressure (adsorption/mod.rs `isotherm`)
fn driver_bulk(func: &std::sync::Arc<F>, t: quantity::Temperature, p: Pressure, moles: &Moles<Array1<f64>>) -> Result<State<F>, String> {
    use feos_core::Components;
    let mut bulk = StateBuilder::new(func).temperature(t).pressure(p).moles(moles).build().map_err(|e| e.to_string())?;
    if func.components() > 1 && !bulk.is_stable(SolverOptions::default()).map_err(|e| e.to_string())? {
        bulk = bulk.tp_flash(None, SolverOptions::default(), None).map_err(|e| e.to_string())?.vapor().clone();
    }
    Ok(bulk)
}

fn execute(sc: &DScenario) -> RunOutcome {
    let mut out = RunOutcome::default();
    let mut dg = Digest::default();
    let sys = &pool().systems[sc.system % pool().systems.len()];
    let solver: Option<DFTSolver> = sc.chain.as_ref().map(|c| build_solver(c));
    let tol = tol_of(&sc.chain);
    match &sc.kind {
        DKind::Isotherm { geometry, size, eps_ss, tf, p_fracs, mode } => {
            let t = tf * sys.tc * KELVIN;
            let x = sys.binary_x.map(|x| arr1(&[x, 1.0 - x]));
            // the amounts exactly as the driver builds them (one particle for a pure fluid): the retry
            // contract below is an exact comparison, and the last bit of the bulk density decides
            // whether a solve at the edge of its iteration budget converges
            let moles = {
                use feos_core::Residual;
                match sys.func.validate_moles(x.as_ref().map(|x| Moles::from_reduced(x.clone())).as_ref()) {
                    Ok(m) => m,
                    Err(_) => moles_of(sys.binary_x),
                }
            };
            // pressure scale: saturation (dew) pressure below T_c, pressure at the critical density above
            let p_ref = guarded(|| {
                if *tf < 1.0 {
                    match sys.binary_x {
                        None => PhaseEquilibrium::pure(&sys.func, t, None, Default::default()),
                        Some(x) => PhaseEquilibrium::dew_point(&sys.func, t, &arr1(&[x, 1.0 - x]), None, None, Default::default()),
                    }
                    .map(|v| v.vapor().pressure(Contributions::Total))
                    .map_err(|e| e.to_string())
                } else {
                    State::new_nvt(&sys.func, t, moles.sum() / Density::from_reduced(sys.rhoc), &moles).map(|s| s.pressure(Contributions::Total)).map_err(|e| e.to_string())
                }
            });
            let Ok(p_ref) = p_ref else {
                out.count("probe.build_failed", 1);
                out.digest = dg.0;
                return out;
            };
            let pressure: Pressure<Array1<f64>> = Pressure::from_shape_fn(p_fracs.len(), |i| p_ref * p_fracs[i]);
            let geo = match geometry {
                0 => Geometry::Cartesian,
                1 => Geometry::Cylindrical,
                _ => Geometry::Spherical,
            };
            let geo_name = ["slit", "cylinder", "sphere"][(*geometry).min(2) as usize];
            let pore = Pore1D::new(geo, *size * ANGSTROM, ExternalPotential::LJ93 { sigma_ss: 3.0, epsilon_k_ss: *eps_ss, rho_s: 0.08 }, Some(sc.n_grid), None);
            let what = |i: usize| format!("{} {geo_name} pore {size} A eps_ss={eps_ss} T={tf} Tc n={} mode {mode} point {i} (p = {} p_ref)", sys.name, sc.n_grid, p_fracs[i]);
            let run = |mode: u8| {
                std::panic::catch_unwind(std::panic::AssertUnwindSafe(|| match mode {
                    0 => Adsorption1D::adsorption_isotherm(&sys.func, t, &pressure, &pore, x.as_ref(), solver.as_ref()),
                    1 => Adsorption1D::desorption_isotherm(&sys.func, t, &pressure, &pore, x.as_ref(), solver.as_ref()),
                    _ => Adsorption1D::equilibrium_isotherm(&sys.func, t, &pressure, &pore, x.as_ref(), solver.as_ref()),
                }))
            };
            out.count(&format!("op.isotherm.mode{mode}"), 1);
            let iso = match run(*mode) {
                Ok(Ok(iso)) => iso,
                Ok(Err(e)) => {
                    // the start profile of the driver did not converge (or the bulk state could not be built)
                    out.count("probe.isotherm_failed_as_a_whole", 1);
                    dg.str(&e.to_string());
                    out.digest = dg.0;
                    return out;
                }
                Err(_) => {
                    let _ = take_last_panic();
                    out.count("probe.driver_panicked", 1);
                    out.digest = dg.0;
                    return out;
                }
            };
            // D1: one entry per requested pressure (the equilibrium isotherm inserts the transition pressure twice)
            let n = iso.profiles.len();
            out.steps += n as u64;
            let inserted = n == p_fracs.len() + 2 && *mode == 2;
            if n != p_fracs.len() && !inserted {
                out.violate("driver-length", "driver-length", format!("{}: {} pressures requested, {n} entries returned", what(0), p_fracs.len()));
                out.digest = dg.0;
                return out;
            }
            // accessor arrays
            let (acc_p, acc_n, acc_w) = match std::panic::catch_unwind(std::panic::AssertUnwindSafe(|| (iso.pressure().to_reduced(), iso.total_adsorption().to_reduced(), iso.grand_potential().to_reduced()))) {
                Ok(v) => v,
                Err(_) => {
                    let _ = take_last_panic();
                    out.count("probe.accessor_panicked", 1);
                    out.digest = dg.0;
                    return out;
                }
            };
            // D9: without a pore phase transition the equilibrium isotherm is, point by point, the branch
            // with the lower grand potential (the adsorption branch where desorption failed)
            if *mode == 2 && !inserted {
                if let (Ok(Ok(a)), Ok(Ok(d))) = (run(0), run(1)) {
                    let pick = std::panic::catch_unwind(std::panic::AssertUnwindSafe(|| (a.grand_potential().to_reduced(), d.grand_potential().to_reduced())));
                    if let Ok((wa, wd)) = pick {
                        out.count("oracle.equilibrium_branch", 1);
                        for i in 0..n.min(wa.len()).min(wd.len()) {
                            let want = if wd[i].is_nan() || wa[i] < wd[i] { wa[i] } else { wd[i] };
                            let dev = deviation(acc_w[i], want, 1e-300);
                            if !(dev <= 1e-12) {
                                out.violate("driver-wrong-branch", "driver-branch", format!("{}: equilibrium isotherm has grand potential {:e}, adsorption branch {:e}, desorption branch {:e}", what(i), acc_w[i], wa[i], wd[i]));
                            }
                        }
                    }
                } else {
                    let _ = take_last_panic();
                }
            }
            let mut last_p = f64::NEG_INFINITY;
            for (i, r) in iso.profiles.iter().enumerate() {
                let want_p = if inserted { None } else { Some(pressure.get(i).to_reduced()) };
                match r {
                    Ok(pp) => {
                        out.count("probe.point_ok", 1);
                        let p = &pp.profile;
                        let w = if inserted { format!("{} entry {i}", what(0)) } else { what(i) };
                        // D2: the entry belongs to the requested state, in request order
                        let got_p = p.bulk.pressure(Contributions::Total).to_reduced();
                        dg.f64(got_p);
                        out.note(format!("entry {i}: Ok, bulk p = {:e} p_ref, bulk density {:e}, adsorbed {:e}", got_p / p_ref.to_reduced(), p.bulk.density.to_reduced(), p.total_moles().to_reduced()));
                        if let Some(want) = want_p {
                            let d = deviation(got_p, want, 1e-300);
                            out.max("pressure_dev", d);
                            // (a mixture inside its two-phase region is replaced by its vapor phase at the same pressure)
                            if !(d <= 1e-6) {
                                out.violate("driver-wrong-state", "driver-state", format!("{w}: the returned profile is at bulk pressure {got_p:e}, requested {want:e}"));
                            }
                        } else {
                            if !(got_p >= last_p * (1.0 - 1e-9)) {
                                out.violate("driver-order", "driver-order", format!("{w}: bulk pressures of the equilibrium isotherm are not ascending ({last_p:e} then {got_p:e})"));
                            }
                            last_p = got_p;
                        }
                        let dt = deviation(p.bulk.temperature.to_reduced(), t.to_reduced(), 1e-300);
                        if !(dt <= 1e-12) {
                            out.violate("driver-wrong-state", "driver-state", format!("{w}: the returned profile is at another temperature"));
                        }
                        // accessors aligned with the entries
                        let d = deviation(acc_p[i], got_p, 1e-300).max(deviation(acc_n[i], p.total_moles().to_reduced(), 1e-300)).max(pp.grand_potential.map_or(f64::INFINITY, |g| deviation(acc_w[i], g.to_reduced(), 1e-300)));
                        if !(d <= 1e-9) {
                            out.violate("driver-accessor", "driver-accessor", format!("{w}: pressure()/total_adsorption()/grand_potential() entry differs from the profile it belongs to (deviation {d:e})"));
                        }
                        // S1, S1c, S2 for a profile handed out as solved
                        let valid = judge_profile(&mut out, &mut dg, p, tol, geo_name, &w);
                        // S4b: stored observable belongs to the profile
                        if let (Ok(rc), Some(g)) = (p.grand_potential(), pp.grand_potential) {
                            let d = deviation(rc.to_reduced(), g.to_reduced(), 1e-300);
                            out.max("observable_staleness", d);
                            if !(d <= 1e-10) {
                                out.violate("observable-stale", "observable", format!("{w}: stored grand potential differs from the one of the stored profile by {d:e}"));
                            }
                        }
                        // S4: the history (start from the previous point) must not show in the result where
                        // the solution is unique (clearly supercritical, weakly attractive wall)
                        // (the tolerance is absolute: it says nothing about a profile whose densities are below it.
                        // The equilibrium isotherm above T_c "finds" a pore phase transition at ~1e-14 p and
                        // inserts two entries there - bulk density 1e-17: not judged for path independence)
                        let scale_ok = p.bulk.density.to_reduced() * 1e-4 >= tol;
                        if !scale_ok {
                            out.count("window.bulk_density_below_tolerance_scale", 1);
                        }
                        if valid && scale_ok && *tf >= 1.2 && *eps_ss <= 60.0 && tol <= 1e-9 {
                            let fresh = guarded(|| {
                                let b = p.bulk.clone();
                                pore.initialize(&b, None, None).and_then(|q| q.solve(None)).map_err(|e| e.to_string())
                            });
                            if let Ok(q) = fresh {
                                let d = deviation(p.total_moles().to_reduced(), q.profile.total_moles().to_reduced(), 1e-300);
                                out.count("oracle.path_independence", 1);
                                out.max("path_dev", d);
                                if !(d <= 1e-3) {
                                    out.violate("path-dependence", "path", format!("{w}: adsorbed amount {:e} differs from a stand-alone solve of the same state ({:e})", p.total_moles().to_reduced(), q.profile.total_moles().to_reduced()));
                                }
                            }
                        }
                    }
                    Err(e) => {
                        out.count("fault.point_failed", 1);
                        dg.str("err");
                        out.note(format!("entry {i}: Err {e}"));
                        if !(acc_p[i].is_nan() && acc_n[i].is_nan() && acc_w[i].is_nan()) {
                            out.violate("driver-accessor", "driver-accessor", format!("{}: a failed point has a number in pressure()/total_adsorption()/grand_potential()", what(i.min(p_fracs.len() - 1))));
                        }
                        // D6: a point fails only if the retry from a fresh profile fails: the same solver on
                        // the fresh profile of the same state, stand-alone, must fail too
                        if let (Some(_), true) = (want_p, *mode != 2) {
                            let fresh = guarded(|| {
                                // (the very same pressure value: a unit round trip changes the last bit)
                                let b = driver_bulk(&sys.func, t, pressure.get(i), &moles)?;
                                pore.initialize(&b, None, None).and_then(|q| q.solve(solver.as_ref())).map(|_| ()).map_err(|e| e.to_string())
                            });
                            out.count("oracle.retry_contract", 1);
                            if fresh.is_ok() {
                                out.violate("driver-lost-point", "driver-lost-point", format!("{}: the isotherm reports a failure ({e}) although the same solver converges from a fresh profile at this state", what(i)));
                            }
                        }
                    }
                }
            }
        }
        DKind::Diagram { tf_min, npoints, l_grid, init_densities } => {
            if sys.binary_x.is_some() {
                out.count("probe.build_failed", 1);
                out.digest = dg.0;
                return out;
            }
            let dia = guarded(|| PhaseDiagram::pure(&sys.func, tf_min * sys.tc * KELVIN, *npoints, None, Default::default()).map_err(|e| e.to_string()));
            let Ok(dia) = dia else {
                out.count("probe.build_failed", 1);
                out.digest = dg.0;
                return out;
            };
            out.count("op.surface_tension_diagram", 1);
            let std_ = std::panic::catch_unwind(std::panic::AssertUnwindSafe(|| {
                SurfaceTensionDiagram::new(&dia.states, *init_densities, Some(sc.n_grid), Some(*l_grid * ANGSTROM), Some(sys.tc * KELVIN), Some(false), solver.as_ref())
            }));
            let Ok(mut std_) = std_ else {
                let _ = take_last_panic();
                out.count("probe.driver_panicked", 1);
                out.digest = dg.0;
                return out;
            };
            let n = std_.profiles.len();
            out.steps += n as u64;
            out.count("fault.point_dropped", (dia.states.len() - n.min(dia.states.len())) as u64);
            if n > dia.states.len() {
                out.violate("driver-length", "driver-length", format!("{}: {} states given, {n} profiles returned", sys.name, dia.states.len()));
            }
            let gammas = std_.surface_tension().to_reduced();
            let (nv, nl) = (std_.vapor().len(), std_.liquid().len());
            if gammas.len() != n || nv != n || nl != n {
                out.violate("driver-accessor", "driver-accessor", format!("{}: accessor lengths differ from the number of profiles", sys.name));
            }
            // every profile belongs to one of the given states, in order
            let mut k = 0usize;
            for (i, ifc) in std_.profiles.iter().enumerate() {
                let tt = ifc.vle.vapor().temperature.to_reduced();
                dg.f64(tt);
                let w = format!("{} surface tension diagram from {tf_min} Tc, {npoints} points, n={} init {:?}, profile {i} (T = {} Tc)", sys.name, sc.n_grid, init_densities, tt / sys.tc);
                while k < dia.states.len() && dia.states[k].vapor().temperature.to_reduced() != tt {
                    k += 1;
                }
                if k >= dia.states.len() {
                    out.violate("driver-order", "driver-order", format!("{w}: not one of the given states, or out of order"));
                    break;
                }
                let vle = &dia.states[k];
                k += 1;
                let same = ifc.vle.vapor().density.to_reduced().to_bits() == vle.vapor().density.to_reduced().to_bits() && ifc.vle.liquid().density.to_reduced().to_bits() == vle.liquid().density.to_reduced().to_bits();
                if !same {
                    out.violate("driver-wrong-state", "driver-state", format!("{w}: the phase equilibrium stored with the profile is not the given one"));
                }
                if PhaseEquilibrium::is_trivial_solution(vle.vapor(), vle.liquid()) {
                    out.count("probe.critical_point_profile", 1);
                    continue;
                }
                out.count("probe.point_ok", 1);
                let valid = judge_profile(&mut out, &mut dg, &ifc.profile, tol, "interface", &w);
                let Some(g) = ifc.surface_tension else {
                    out.violate("observable-stale", "observable", format!("{w}: no surface tension stored for a solved profile"));
                    continue;
                };
                let g = g.to_reduced();
                if deviation(gammas[i], g, 1e-300) > 1e-12 {
                    out.violate("driver-accessor", "driver-accessor", format!("{w}: surface_tension()[{i}] differs from the profile's"));
                }
                // S4b
                if let Ok(wd) = ifc.profile.grand_potential_density() {
                    let rc = (ifc.profile.integrate(&(wd + ifc.vle.vapor().pressure(Contributions::Total))) / quantity::Area::from_reduced(1.0)).to_reduced();
                    let d = deviation(rc, g, 1e-300);
                    out.max("observable_staleness", d);
                    if !(d <= 1e-10) {
                        out.violate("observable-stale", "observable", format!("{w}: stored surface tension differs from the one of the stored profile by {d:e}"));
                    }
                }
                // S4: same interface solved stand-alone (tanh start, default solver)
                let tr = tt / sys.tc;
                if valid && tr <= 0.9 && tol <= 1e-9 && intact(ifc) {
                    // the driver's own initialisation, without the predecessor
                    let fresh = guarded(|| {
                        if vle.vapor().eos.component_index().len() == 1 { PlanarInterface::from_pdgt(vle, sc.n_grid, false) } else { Ok(PlanarInterface::from_tanh(vle, sc.n_grid, *l_grid * ANGSTROM, sys.tc * KELVIN, false)) }
                            .and_then(|q| q.solve(None))
                            .map_err(|e| e.to_string())
                    });
                    if let Ok(q) = fresh {
                        if intact(&q) {
                            let d = deviation(g, q.surface_tension.unwrap().to_reduced(), 1e-300);
                            out.count("oracle.path_independence", 1);
                            out.max("path_dev", d);
                            if !(d <= 1e-3) {
                                out.violate("path-dependence", "path", format!("{w}: surface tension {g:e} differs from a stand-alone solve of the same interface ({:e})", q.surface_tension.unwrap().to_reduced()));
                            }
                        }
                    }
                }
            }
        }
    }
    out.digest = dg.0;
    out
}

fn intact(i: &PlanarInterface<F>) -> bool {
    let rho = i.profile.density.to_reduced().sum_axis(Axis(0));
    let n = rho.len();
    // summed segment densities of the two bulk phases
    let ci = i.profile.dft.component_index();
    let seg = |s: &State<F>| -> f64 {
        let pd = s.partial_density.to_reduced();
        ci.iter().map(|&c| pd[c]).sum()
    };
    let (rl, rv) = (seg(i.vle.liquid()), seg(i.vle.vapor()));
    let (a, b) = (rho[0], rho[n - 1]);
    // both bulk phases are still in the box (a profile whose interface has left the box is uniform:
    // a legitimate stationary point with zero surface tension) ...
    let ends_ok = ((a - rl).abs() < 0.01 * rl && (b - rv).abs() < 0.01 * rl) || ((b - rl).abs() < 0.01 * rl && (a - rv).abs() < 0.01 * rl);
    if !ends_ok {
        return false;
    }
    // ... with exactly one interface, inside the middle half
    let mid = 0.5 * (rl + rv);
    let crossings = rho.iter().zip(rho.iter().skip(1)).filter(|(x, y)| (**x - mid) * (**y - mid) < 0.0).count();
    let k = rho.iter().position(|r| (*r - mid) * (a - mid) < 0.0).unwrap_or(0);
    crossings == 1 && k > n / 4 && k < 3 * n / 4
}

impl Engine for C18Driver {
    type Scenario = DScenario;
    fn property(&self) -> &'static str {
        "C18"
    }
    fn name(&self) -> &'static str {
        "c18-driver"
    }
    fn generate(&self, seed: u64, tier: Tier) -> DScenario {
        let mut rng = Rng::new(seed);
        let nsys = pool().systems.len();
        let diagram = rng.chance(0.3);
        let chain = if rng.chance(0.3) {
            None
        } else {
            let ns = rng.range(1, 4);
            let mut c: Vec<Stage> = (0..ns).map(|j| gen_stage(&mut rng, j + 1 == ns)).collect();
            if rng.chance(0.35) {
                // the interruption: the last stage runs out of iterations at some points of the history
                let l = c.last_mut().unwrap();
                l.max_iter = rng.range(3, 40);
            }
            Some(c)
        };
        if diagram {
            // pure-component functionals only (PhaseDiagram::pure)
            let pures: Vec<usize> = (0..nsys).filter(|i| pool().systems[*i].binary_x.is_none()).collect();
            let system = *rng.pick(&pures);
            DScenario {
                system,
                kind: DKind::Diagram {
                    tf_min: q9(rng.uniform(0.5, 0.8)),
                    npoints: rng.range(2, if tier == Tier::Quick { 5 } else { 8 }),
                    l_grid: *rng.pick(&[140.0, 240.0]),
                    init_densities: *rng.pick(&[None, Some(true), Some(false)]),
                },
                n_grid: *rng.pick(&[128usize, 256, 512]),
                chain,
            }
        } else {
            let system = rng.below(nsys);
            let np = rng.range(2, if tier == Tier::Quick { 5 } else { 9 });
            let supercritical = rng.chance(0.6);
            let mut fr: Vec<f64> = (0..np).map(|_| q9(if supercritical { rng.uniform(0.02, 1.5) } else { rng.uniform(0.02, 0.95) })).collect();
            fr.sort_by(|a, b| a.partial_cmp(b).unwrap());
            fr.dedup();
            DScenario {
                system,
                kind: DKind::Isotherm {
                    geometry: rng.below(3) as u8,
                    size: q9(rng.uniform(12.0, 35.0)),
                    eps_ss: *rng.pick(&[20.0, 40.0, 60.0, 100.0]),
                    tf: q9(if supercritical { rng.uniform(1.2, 1.5) } else { rng.uniform(0.7, 0.95) }),
                    p_fracs: fr,
                    mode: if rng.chance(0.1) { 2 } else { rng.below(2) as u8 },
                },
                n_grid: *rng.pick(&[128usize, 256]),
                chain,
            }
        }
    }
    fn execute(&self, sc: &DScenario) -> RunOutcome {
        let mut o = execute(sc);
        o.distinct.push(Digest::of_value(&serde_json::to_value(sc).unwrap()));
        o.nontrivial = o.counters.get("probe.point_ok").copied().unwrap_or(0) + o.counters.get("fault.point_failed").copied().unwrap_or(0) > 0;
        o
    }
    fn shrink(&self, sc: &DScenario) -> Vec<DScenario> {
        let mut v = Vec::new();
        match &sc.kind {
            DKind::Isotherm { p_fracs, .. } => {
                if p_fracs.len() > 1 {
                    for j in 0..p_fracs.len() {
                        let mut t = sc.clone();
                        if let DKind::Isotherm { p_fracs, .. } = &mut t.kind {
                            p_fracs.remove(j);
                        }
                        v.push(t);
                    }
                }
            }
            DKind::Diagram { npoints, .. } => {
                if *npoints > 2 {
                    let mut t = sc.clone();
                    if let DKind::Diagram { npoints, .. } = &mut t.kind {
                        *npoints -= 1;
                    }
                    v.push(t);
                }
            }
        }
        if let Some(c) = &sc.chain {
            let mut t = sc.clone();
            t.chain = None;
            v.push(t);
            if c.len() > 1 {
                for k in 0..c.len() {
                    let mut t = sc.clone();
                    let mut cc = c.clone();
                    cc.remove(k);
                    t.chain = Some(cc);
                    v.push(t);
                }
            }
        }
        if sc.n_grid > 128 {
            let mut t = sc.clone();
            t.n_grid = 128;
            v.push(t);
        }
        v
    }
    fn rule(&self) -> String {
        "one case = (functional; adsorption / desorption / equilibrium isotherm of 2..9 ascending pressures in a slit/cylindrical/spherical LJ93 pore at 0.7..0.95 T_c below saturation or 1.2..1.5 T_c, or a surface tension diagram of 2..8 temperatures from 0.5..0.8 T_c with or without re-use of the previous density; default solver or a chain of 1..4 stages, in one case of three with an iteration budget that fails at some points). distinct = distinct scenarios; non-trivial = the driver returned at least one entry.".into()
    }
    fn components(&self) -> Value {
        json!({
            "real": ["feos-dft Adsorption1D::{adsorption,desorption,equilibrium}_isotherm, Pore1D, PoreProfile::solve, SurfaceTensionDiagram::new, PlanarInterface::{from_tanh,from_pdgt,solve}, DFT solvers", "feos-core PhaseDiagram::pure, StateBuilder, tp_flash (mixtures inside the two-phase region)"],
            "stub": ["getrandom(2) -> seeded"],
            "faults": ["interruption = iteration budget of the last stage cut (point fails, driver retries from a fresh profile, successor starts fresh)"],
            "not_exercised": ["3-D pores", "Adsorption::phase_equilibrium is reached only through equilibrium_isotherm"]
        })
    }
    fn assumptions(&self) -> Vec<String> {
        vec![
            "a failed isotherm point is compared with a stand-alone solve by the same solver from the fresh profile of the same bulk state (the driver's documented retry); the comparison is exact because the solvers are deterministic".into(),
            "path independence judged only above 1.2 T_c with eps_ss <= 60 K (unique solution), tolerance <= 1e-9; for interfaces up to 0.9 T_c with one intact interface in the middle half".into(),
            "the start profile of an isotherm failing aborts the whole isotherm by design (`?`): counted, not judged".into(),
        ]
    }
}
